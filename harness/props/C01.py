"""C01 — file digests are the standard algorithms over the exact file bytes."""
import os, random, hashlib, subprocess, json, glob
from .. import rt, framework as fw
from ..model import Driver

MiB = 1024 * 1024
CLI_FORMATS = ["md5", "sha1", "xxh128", "xxh3", "xxh64", "c4"]
ALL_FORMATS = CLI_FORMATS + ["xxh32"]


def spy_updates():
    """record the chunks passed to Hasher.update, per hasher object"""
    import ascmhl.hasher as Hh

    calls = []
    orig = Hh.Hasher.update

    def upd(self, data):
        calls.append((id(self), type(self).__name__, bytes(data)))
        return orig(self, data)

    Hh.Hasher.update = upd
    return calls, lambda: setattr(Hh.Hasher, "update", orig)


def boundary_values():
    vals = [0, 1, 57, 58, 59, 2**511, 2**512 - 1, 2**512 - 58, 2**256, 2**504]
    for k in (1, 2, 3, 43, 86, 87):
        for d in (-1, 0, 1):
            v = 58**k + d
            if 0 <= v < 2**512:
                vals.append(v)
    # 58^88 > 2^512, largest value with a leading non-zero digit etc.
    vals += [58**87 * 3, 58**87 - 1, 58**86 * 57]
    return [v for v in vals if 0 <= v < 2**512]


def run(ctx):
    import ascmhl.hasher as Hh

    rnd = random.Random(ctx.seed * 7919 + 1)
    ok_r = fw.regen(ctx)
    ok_b = fw.lake_build(ctx, ["MhlModel", "MhlProps.C01"]) if ok_r else False
    if ok_b:
        fw.audit(ctx)
        if ctx.thorough:
            fw.leanchecker(ctx)
    corr, fails, samples = [], [], []
    evals = 0
    dist = {"sizes": [], "c4_values": 0, "format_subsets": 0, "entry_points": 0}
    # sizes around the read chunk taken from the *current source* (falls back to 1 MiB if extraction failed)
    chunk = MiB
    try:
        for l in open(os.path.join(fw.LEAN, "MhlModel", "Gen", "Consts.lean")):
            if l.startswith("def chunkSingle"):
                chunk = int(l.split(":=")[1])
    except Exception:
        pass
    sizes = [0, 1, chunk - 1, chunk, chunk + 1, 2 * chunk, 3 * chunk + 7, rnd.randint(2, chunk - 2)]
    if MiB not in sizes:
        sizes += [MiB - 1, MiB, MiB + 1]
    if ctx.thorough:
        sizes += [16 * MiB + 3, rnd.randint(chunk, 4 * chunk), 5 * chunk]
    sizes = [s for s in sizes if s >= 0]
    drv = None
    with rt.tempdir("c01_") as d:
        root = os.path.join(d, "root")
        os.makedirs(root)
        # ---- (a) update-trace refinement + digests from every library entry point
        for size in sizes:
            data = rnd.randbytes(size)
            fp = os.path.join(root, f"f{size}.bin")
            with open(fp, "wb") as f:
                f.write(data)
            dist["sizes"].append(size)
            for fmt in ALL_FORMATS:
                ref = rt.digest(fmt, data)
                calls, undo = spy_updates()
                try:
                    got = Hh.hash_file(fp, fmt)
                finally:
                    undo()
                evals += 1
                chunks = [c[2] for c in calls]
                if any(len(c) == 0 for c in chunks) or b"".join(chunks) != data:
                    corr.append({"what": f"hash_file update trace does not refine the model hypothesis (non-empty chunks concatenating to the file): size {size} fmt {fmt} chunk lengths {[len(c) for c in chunks][:6]}", "replay": {"size": size, "fmt": fmt}})
                if got != ref:
                    fails.append({"what": f"hash_file({size} bytes, {fmt}) = {got}, standard digest {ref}", "replay": {"entry": "hash_file", "size": size, "fmt": fmt, "seed": ctx.seed, "data_sha256": hashlib.sha256(data).hexdigest()}})
                if size <= 2 * MiB + 16:
                    for name, val in (("hash_data", Hh.hash_data(data, fmt)), ("multiple_format_hash_data", Hh.multiple_format_hash_data(data, [fmt])[fmt])):
                        evals += 1
                        if val != ref:
                            fails.append({"what": f"{name}({size} bytes, {fmt}) = {val}, standard digest {ref}", "replay": {"entry": name, "size": size, "fmt": fmt}})
                    b = Hh.bytes_for_hash_string(ref, fmt)
                    if b != rt.digest_bytes(fmt, ref):
                        fails.append({"what": f"bytes_for_hash_string({ref},{fmt}) wrong", "replay": {"fmt": fmt, "s": ref}})
            # read-once multi-format loop: every subset (thorough) / sampled subsets (quick)
            subsets = []
            if ctx.thorough and size in (0, chunk + 1, 3 * chunk + 7):
                for m in range(1, 128):
                    subsets.append([f for i, f in enumerate(ALL_FORMATS) if m >> i & 1])
            else:
                subsets = [ALL_FORMATS, list(reversed(CLI_FORMATS)), ["md5", "md5", "c4"]] + [rnd.sample(ALL_FORMATS, rnd.randint(1, 4)) for _ in range(3)]
            for sub in subsets:
                calls, undo = spy_updates()
                try:
                    res = Hh.multiple_format_hash_file(fp, sub)
                finally:
                    undo()
                evals += 1
                dist["format_subsets"] += 1
                per = {}
                for oid, cls, c in calls:
                    per.setdefault(oid, []).append(c)
                for oid, cs in per.items():
                    if any(len(c) == 0 for c in cs) or b"".join(cs) != data:
                        corr.append({"what": f"multiple_format_hash_file update trace does not refine the model hypothesis: size {size} formats {sub}", "replay": {"size": size, "fmts": sub}})
                        break
                if list(res.keys()) != list(dict.fromkeys(sub)):
                    corr.append({"what": f"multiple_format_hash_file key order {list(res)} for {sub}", "replay": {"fmts": sub}})
                for f in sub:
                    if res.get(f) != rt.digest(f, data):
                        fails.append({"what": f"multiple_format_hash_file({size} bytes, {sub})[{f}] = {res.get(f)}, standard digest {rt.digest(f, data)}", "replay": {"entry": "multiple_format_hash_file", "size": size, "fmts": sub, "fmt": f, "seed": ctx.seed}})
        # ---- every small size 0..300 (the short-input code paths of the xxh family switch at 16/128/240 bytes, the block
        # sizes of md5/sha1/sha512 are 64/128): single-format and read-once passes, all formats together and every pair
        pairs = [[a, b] for i, a in enumerate(ALL_FORMATS) for b in ALL_FORMATS[i + 1:]]
        sp = os.path.join(root, "small.bin")
        for size in range(0, 301):
            data = rnd.randbytes(size)
            with open(sp, "wb") as f:
                f.write(data)
            subs = [ALL_FORMATS] + ([pairs[size % len(pairs)], pairs[(size * 7 + 3) % len(pairs)]] if not ctx.thorough else pairs)
            for sub in subs:
                evals += 1
                try:
                    res = Hh.multiple_format_hash_file(sp, sub)
                except Exception as e:
                    res = {"exc": repr(e)}
                for f in sub:
                    if res.get(f) != rt.digest(f, data):
                        fails.append({"what": f"multiple_format_hash_file({size} bytes, {sub})[{f}] = {res.get(f)}, standard digest {rt.digest(f, data)}", "replay": {"entry": "multiple_format_hash_file", "size": size, "fmts": sub, "fmt": f, "data_hex": data.hex()}})
            for f in ALL_FORMATS:
                evals += 1
                try:
                    got = Hh.hash_file(sp, f)
                except Exception as e:
                    got = repr(e)
                if got != rt.digest(f, data):
                    fails.append({"what": f"hash_file({size} bytes, {f}) = {got}, standard digest {rt.digest(f, data)}", "replay": {"entry": "hash_file", "size": size, "fmt": f, "data_hex": data.hex()}})
        dist["small_sizes"] = "0..300, all formats together + format pairs"
        # ---- a storage fault in the middle of a file (a short read, then one EIO): the run may fail with the error, but
        # whatever digest is RETURNED is the digest of all the bytes
        import builtins, io, errno

        class FlakyRaw(io.FileIO):
            def __init__(self, *a, fail_at=2, **k):
                super().__init__(*a, **k)
                self.calls, self.fail_at = 0, fail_at

            def readinto(self, b):
                self.calls += 1
                if self.calls == self.fail_at - 1:
                    return super().readinto(memoryview(b)[:4096])
                if self.calls == self.fail_at:
                    raise OSError(errno.EIO, "Input/output error (injected)")
                return super().readinto(b)

        fp3 = os.path.join(root, "flaky.bin")
        data3 = rnd.randbytes(3 * MiB + 77)
        with open(fp3, "wb") as f:
            f.write(data3)
        real_open = builtins.open
        for fail_at in (2, 3, 5):
            armed = [False]

            def flaky_open(file, mode="r", *a, _fa=fail_at, **k):
                # a TRANSIENT fault: only the first time the file is opened (a retry finds the storage healthy again)
                if mode == "rb" and isinstance(file, str) and os.path.abspath(file) == fp3 and armed[0]:
                    armed[0] = False
                    return io.BufferedReader(FlakyRaw(file, "rb", fail_at=_fa), buffer_size=k.get("buffering", -1) if k.get("buffering", -1) > 0 else io.DEFAULT_BUFFER_SIZE)
                return real_open(file, mode, *a, **k)
            for entry, call in (("hash_file", lambda: {"md5": Hh.hash_file(fp3, "md5")}), ("multiple_format_hash_file", lambda: Hh.multiple_format_hash_file(fp3, ["md5", "xxh64"]))):
                builtins.open = flaky_open
                armed[0] = True
                try:
                    got = call()
                except OSError:
                    got = None  # failing loudly is fine
                except Exception as e:
                    got = None
                    ctx.notes.append(f"{entry} under an injected read error raised {e!r}")
                finally:
                    builtins.open = real_open
                evals += 1
                for f_, v in (got or {}).items():
                    if v != rt.digest(f_, data3):
                        fails.append({"what": f"{entry}({len(data3)} bytes, {f_}) with one injected read error (short read, then EIO at raw read #{fail_at}) RETURNS {v}, the digest of the bytes is {rt.digest(f_, data3)}", "replay": {"entry": entry, "fault": "short read then EIO", "fail_at": fail_at, "size": len(data3)}})
        dist["fault_injection"] = "short read followed by one EIO at raw read 2/3/5"
        # ---- "the result depends only on the bytes": the same path hashed again after its bytes changed IN PLACE (same
        # length, same inode, modification time put back) gives the digest of the new bytes, in the same process
        fpm = os.path.join(root, "inplace.bin")
        for size in (1, 4096, chunk + 17):
            a = rnd.randbytes(size)
            with open(fpm, "wb") as f:
                f.write(a)
            os.utime(fpm, ns=(1_700_000_000_123_456_789, 1_700_000_000_123_456_789))
            st = os.stat(fpm)
            first = {f_: Hh.hash_file(fpm, f_) for f_ in ("md5", "xxh64", "c4")}
            firstm = Hh.multiple_format_hash_file(fpm, ["md5", "sha1"])
            x1 = rt.run("hash", [fpm, "-h", "md5"])
            b = bytes([a[0] ^ 0xFF]) + a[1:]
            with open(fpm, "r+b") as f:
                f.write(b)
            os.utime(fpm, ns=(st.st_atime_ns, st.st_mtime_ns))
            evals += 3
            for f_ in ("md5", "xxh64", "c4"):
                got = Hh.hash_file(fpm, f_)
                if got != rt.digest(f_, b):
                    fails.append({"what": f"hash_file({f_}) of a {size}-byte file whose first byte was changed in place (same size, inode and modification time) still returns {got}" + (" - the digest of the OLD bytes" if got == first[f_] else "") + f"; the digest of the bytes now in the file is {rt.digest(f_, b)}", "replay": {"entry": "hash_file twice", "size": size, "fmt": f_}})
            gm = Hh.multiple_format_hash_file(fpm, ["md5", "sha1"])
            for f_ in ("md5", "sha1"):
                if gm.get(f_) != rt.digest(f_, b):
                    fails.append({"what": f"multiple_format_hash_file[{f_}] after an in-place change returns {gm.get(f_)}, the digest of the bytes is {rt.digest(f_, b)}", "replay": {"entry": "multiple_format_hash_file twice", "size": size}})
            x2 = rt.run("hash", [fpm, "-h", "md5"])
            if rt.digest("md5", b) not in x2.out:
                fails.append({"what": f"`hash -h md5` after an in-place change prints {x2.out.strip()[-60:]!r}, the digest of the bytes is {rt.digest('md5', b)}", "replay": {"entry": "hash twice", "size": size}})
        # ---- streaming use of a hasher object: digests may be taken at any time and never disturb the state
        for fmt in ALL_FORMATS:
            for _ in range(ctx.scale(6, 60)):
                h = Hh.new_hasher_for_hash_type(fmt)
                acc = b""
                evals += 1
                if h.string_digest() != rt.digest(fmt, b""):
                    fails.append({"what": f"streaming {fmt}: digest of a fresh hasher is not the digest of the empty input", "replay": {"entry": "streaming", "fmt": fmt, "chunks": []}})
                chunks = [rnd.randbytes(rnd.choice([0, 1, 3, 64, 1000, 512, 65536, 70001, 200000])) for _ in range(rnd.randint(1, 5))]
                for i, c in enumerate(chunks):
                    h.update(c)
                    acc += c
                    reads = rnd.choice([0, 1, 2])
                    for _r in range(reads):
                        got = h.string_digest()
                        if got != rt.digest(fmt, acc):
                            fails.append({"what": f"streaming {fmt}: after {i+1} updates ({len(acc)} bytes) and an earlier digest call, string_digest() = {got[:24]}… but the standard digest of the bytes fed so far is {rt.digest(fmt, acc)[:24]}…", "replay": {"entry": "streaming", "fmt": fmt, "chunks": [x.hex() for x in chunks[: i + 1]], "seed": ctx.seed}})
                            break
                if h.string_digest() != rt.digest(fmt, acc):
                    fails.append({"what": f"streaming {fmt}: final digest wrong after interleaved digest calls", "replay": {"entry": "streaming", "fmt": fmt, "chunks": [x.hex() for x in chunks], "seed": ctx.seed}})
        samples.append({"sizes": sizes, "formats": ALL_FORMATS})
        # ---- coreutils cross-check of the reference itself (md5/sha1/sha512)
        big = os.path.join(root, f"f{3 * chunk + 7}.bin")
        for tool, fmt in (("md5sum", "md5"), ("sha1sum", "sha1")):
            try:
                out = subprocess.run([tool, big], capture_output=True, text=True, timeout=60).stdout.split()[0]
                if out != rt.digest(fmt, open(big, "rb").read()):
                    ctx.notes.append(f"{tool} disagrees with hashlib?!")
            except Exception:
                pass
        # ---- every CLI entry point on a multi-chunk file and on small files
        # (names with $NAME / ~ while such a variable is set and the expanded name exists as well: a file name is a file name)
        os.environ["SHOT"] = "A001"
        mtree = {"big.bin": open(big, "rb").read(), "empty.bin": b"", "one.bin": b"x", "s/two.bin": b"yy", "clip_$SHOT.mov": b"the file with the dollar name",
                 "clip_A001.mov": b"its namesake after expansion", "s/~note.txt": b"tilde", "s/${SHOT}.txt": b"braces", "s/A001.txt": b"expanded braces"}
        r2 = os.path.join(d, "cli")
        os.makedirs(r2)
        rt.mk(r2, mtree)
        # sparse files (holes before, between and after the written extents, and nothing but a hole): the content of a
        # file is its `size` bytes as read() returns them, zeros of the holes included
        blk = bytes(range(256)) * 64
        for nm, layout, size in (("sparse_tail.bin", [(0, blk)], 300000), ("sparse_lead.bin", [(200000, blk)], 200000 + len(blk)),
                                 ("sparse_mid.bin", [(0, blk), (262144, blk)], 262144 + len(blk) + 70000), ("sparse_all.bin", [], 150000)):
            with open(os.path.join(r2, nm), "wb") as fh:
                for off, b_ in layout:
                    fh.seek(off)
                    fh.write(b_)
                fh.truncate(size)
            mtree[nm] = open(os.path.join(r2, nm), "rb").read()
            assert len(mtree[nm]) == size
        for fmts in ([["md5", "c4"], ["xxh64"], CLI_FORMATS] if not ctx.thorough else [[f] for f in CLI_FORMATS] + [CLI_FORMATS, ["c4", "xxh128", "sha1"]]):
            for p in glob.glob(os.path.join(r2, "**", "ascmhl"), recursive=True):
                import shutil

                shutil.rmtree(p)
            args = [r2]
            for f in fmts:
                args += ["-h", f]
            x = rt.run("create", args, "2026-03-01 12:00:00")
            evals += 1
            dist["entry_points"] += 1
            ms = sorted(glob.glob(os.path.join(r2, "ascmhl", "*.mhl")))
            if x.exit != 0 or not ms:
                fails.append({"what": f"create -h {fmts} on fresh tree: exit {x.exit} exc {x.exc}", "replay": {"tree": "big/empty/one/two", "fmts": fmts}})
                continue
            m = rt.read_manifest(ms[-1])
            for rec in m["records"]:
                if rec["kind"] != "file":
                    continue
                data = mtree[rec["path"]]
                got = {e["fmt"]: e["digest"] for e in rec["entries"]}
                for f in fmts:
                    if got.get(f) != rt.digest(f, data):
                        fails.append({"what": f"create records {f} of {rec['path']} ({len(data)} bytes) as {got.get(f)}, standard digest {rt.digest(f, data)}", "replay": {"entry": "create", "path": rec["path"], "size": len(data), "fmts": fmts, "fmt": f, "seed": ctx.seed}})
            x = rt.run("verify", [r2], "2026-03-01 12:00:01")
            evals += 1
            if x.exit != 0:
                fails.append({"what": f"verify on the untouched tree (one file of {len(mtree['big.bin'])} bytes) sealed with {fmts}: exit {x.exit}", "replay": {"entry": "verify", "fmts": fmts, "size": len(mtree["big.bin"]), "seed": ctx.seed}})
        # a file whose size as reported by stat says nothing about its content (kernel-provided files report 0): the
        # content is what read() returns until end of file
        pv = "/proc/version"
        if os.path.isfile(pv) and os.path.getsize(pv) == 0:
            try:
                pvb = open(pv, "rb").read()
            except OSError:
                pvb = b""
            if pvb:
                for f in CLI_FORMATS:
                    x = rt.run("hash", [pv, "-h", f])
                    evals += 1
                    if f"= {rt.digest(f, pvb)}" not in x.out:
                        fails.append({"what": f"`hash -h {f} {pv}` ({len(pvb)} bytes, stat size 0) prints {x.out.strip()[-100:]!r}, standard digest {rt.digest(f, pvb)}", "replay": {"entry": "hash", "fmt": f, "file": pv}})
        for f in CLI_FORMATS:
            for nm in ("big.bin", "sparse_tail.bin", "sparse_all.bin", "clip_$SHOT.mov", "s/${SHOT}.txt"):
                x = rt.run("hash", [os.path.join(r2, nm), "-h", f])
                evals += 1
                exp = f"{f} ({os.path.join(r2, nm)}) = {rt.digest(f, mtree[nm])}"
                if exp not in x.out:
                    fails.append({"what": f"`hash -h {f}` prints {x.out.strip()[-120:]!r}, expected {exp[-120:]!r}", "replay": {"entry": "hash", "fmt": f, "file": nm, "size": len(mtree[nm]), "seed": ctx.seed}})
        # ---- the hash command given -h more than once (whatever it makes of that): every line it prints carries the
        # digest of the format it names; and the digests that flatten carries over from several generations
        import re as _re
        for hs in (["sha1", "md5"], ["xxh64", "c4", "md5"], ["md5", "md5"]):
            a_ = [os.path.join(r2, "one.bin")]
            for h_ in hs:
                a_ += ["-h", h_]
            x = rt.run("hash", a_)
            evals += 1
            lines = _re.findall(r"^(\w+) \((.*)\) = (\S+)$", x.out, _re.M)
            if x.exit != 0 or not lines:
                fails.append({"what": f"`hash {' '.join('-h ' + h_ for h_ in hs)}` exits {x.exit} and prints {x.out.strip()[-100:]!r}", "replay": {"entry": "hash", "fmts": hs}})
            for f_, _, dg in lines:
                if f_ in CLI_FORMATS and dg != rt.digest(f_, mtree["one.bin"]):
                    fails.append({"what": f"`hash {' '.join('-h ' + h_ for h_ in hs)}` prints {f_} = {dg}, the {f_} digest of the file is {rt.digest(f_, mtree['one.bin'])}", "replay": {"entry": "hash", "fmts": hs, "fmt": f_}})
        r3 = os.path.join(d, "flat")
        ftree = {"a.bin": b"alpha" * 50, "s/b.bin": b"beta" * 500, "e.bin": b""}
        rt.mk(r3, ftree)
        for k_, fm_ in enumerate((["xxh64"], ["md5"], ["sha1", "c4"], ["xxh3", "xxh128", "md5"])):
            a_ = [r3]
            for h_ in fm_:
                a_ += ["-h", h_]
            rt.run("create", a_, "2026-03-01 12:10:%02d" % k_)
        dest = os.path.join(d, "flat_dest")
        os.makedirs(dest)
        x = rt.run("flatten", [r3, dest], "2026-03-01 12:11:00")
        evals += 1
        pls = glob.glob(os.path.join(dest, "*", "*.mhl"))
        if x.exit != 0 or len(pls) != 1:
            fails.append({"what": f"flatten of a history with six formats over four generations exits {x.exit}, packing lists {pls}", "replay": {"entry": "flatten"}})
        else:
            for rec in rt.read_manifest(pls[0])["records"]:
                for e_ in rec["entries"]:
                    if rec["path"] in ftree and e_["digest"] != rt.digest(e_["fmt"], ftree[rec["path"]]):
                        fails.append({"what": f"the packing list records {e_['fmt']} of {rec['path']} as {e_['digest']}, standard digest {rt.digest(e_['fmt'], ftree[rec['path']])}", "replay": {"entry": "flatten", "path": rec["path"], "fmt": e_["fmt"]}})
                if rec["path"] in ftree and {e_["fmt"] for e_ in rec["entries"]} != set(CLI_FORMATS):
                    fails.append({"what": f"the packing list records {rec['path']} with formats {sorted(e_['fmt'] for e_ in rec['entries'])}, the history holds all six", "replay": {"entry": "flatten", "path": rec["path"]}})
    # ---- (c)/(d) codecs: implementation vs model vs independent reference
    n_c4 = ctx.scale(2000, 200000)
    vals = boundary_values() + [rnd.getrandbits(512) for _ in range(n_c4 // 2)] + [rnd.getrandbits(rnd.randint(1, 511)) for _ in range(n_c4 // 2)]
    model_ok = False
    try:
        drv = Driver()
        model_ok = True
    except Exception as e:
        ctx.broken.append(f"model driver does not start: {e}")

    class FakeH:
        """stands in for a hashlib sha512 object whose digest is a chosen 512-bit value (whole hashlib interface, so that
        the check does not depend on which accessor the encoder uses)"""
        name = "sha512"
        digest_size = 64
        block_size = 128

        def __init__(self, hx):
            self.hx = hx

        def hexdigest(self):
            return self.hx

        def digest(self):
            return bytes.fromhex(self.hx)

        def update(self, b):
            pass

        def copy(self):
            return FakeH(self.hx)

    step = max(1, len(vals) // ctx.scale(400, 4000))  # the model is consulted on a sample, the reference on all
    for i, v in enumerate(vals):
        hx = "%0128x" % v
        c4 = Hh.C4()
        c4.hasher = FakeH(hx)
        try:
            s = c4.string_digest()
        except Exception as e:
            s = "exception " + repr(e)
        evals += 1
        dist["c4_values"] += 1
        ref = rt._B58 and ("c4" + _b58(v).rjust(88, "1"))
        if s != ref:
            fails.append({"what": f"C4.string_digest of SHA-512 value {hx[:16]}… = {s[:20]}… expected {ref[:20]}… (length {len(s)})", "replay": {"entry": "C4.string_digest", "value_hex": hx, "got": s, "expected": ref}})
        back = None
        try:
            back = Hh.C4.bytes_from_string_digest(ref)
        except Exception as e:
            back = repr(e)
        if back != v.to_bytes(64, "big"):
            fails.append({"what": f"C4.bytes_from_string_digest({ref[:20]}…) does not give back the 64 digest bytes", "replay": {"entry": "C4.bytes_from_string_digest", "c4": ref, "value_hex": hx}})
        if model_ok and (i % step == 0 or i < 40):
            ms = drv.send({"op": "c4enc", "hex": hx})["s"]
            mb = drv.send({"op": "c4dec", "s": s})["hex"]
            if ms != s:
                corr.append({"what": f"C4 encode: model {ms[:24]}… implementation {s[:24]}… for value {hx[:16]}…", "replay": {"value_hex": hx}})
            if isinstance(back, bytes) and mb != (back.hex() if s == ref else mb):
                corr.append({"what": f"C4 decode differs for {s[:24]}…", "replay": {"c4": s}})
    # hex codec
    for _ in range(ctx.scale(300, 5000)):
        b = rnd.randbytes(rnd.choice([0, 1, 4, 8, 16, 20, 64]))
        fmt = rnd.choice(["md5", "sha1", "xxh64", "xxh3", "xxh128", "xxh32"])
        evals += 1
        try:
            got = Hh.bytes_for_hash_string(b.hex(), fmt)
        except Exception as e:
            got = repr(e)
        if got != b:
            fails.append({"what": f"bytes_for_hash_string({b.hex()!r}, {fmt}) = {got!r}", "replay": {"hex": b.hex(), "fmt": fmt}})
        if model_ok and _ % 10 == 0:
            if drv.send({"op": "unhex", "s": b.hex()})["hex"] != b.hex() or drv.send({"op": "hexenc", "hex": b.hex()})["s"] != b.hex():
                corr.append({"what": f"hex codec: model differs on {b.hex()}", "replay": {"hex": b.hex()}})
    if model_ok:
        # read chunking of the model for the sizes used
        for size in sizes[:8]:
            lens = drv.send({"op": "chunks", "len": size})["lens"]
            if sum(lens) != size or any(l <= 0 for l in lens):
                corr.append({"what": f"model chunking of {size}: {lens[:5]}", "replay": {"size": size}})
        drv.close()
    samples.append({"c4_value": "%0128x" % vals[3], "c4_text": "c4" + _b58(vals[3]).rjust(88, "1")})
    cov = {
        "evaluations": evals,
        "distinct_nontrivial": len(set(dist["sizes"])) * len(ALL_FORMATS) + len(set(vals)) + dist["format_subsets"],
        "rule": "distinct = (file size, format) pairs + distinct 512-bit C4 values + distinct format lists given to the read-once loop; non-trivial: every size class {0, 1, chunk-1, chunk, chunk+1, k*chunk, k*chunk+r} is present and the C4 values include every boundary 58^k±1, values with 0..88 leading zero digits and 2^512-1",
        "samples": samples,
        "input_distribution": dist,
        "monitor": {"cases": evals, "failing": len(fails)},
        "exhaustive": False,
    }
    return fw.finish(ctx, cov, fails, corr, assumptions=["hashlib / xxhash one-shot calls are the standard algorithms (cross-checked against coreutils for md5/sha1)", "file reads return data until EOF (read returns b'' only at EOF)"])


def _b58(n):
    s = ""
    while n:
        n, r = divmod(n, 58)
        s = rt._B58[r] + s
    return s


def replay(ctx, path):
    print(open(path).read())
    return run(ctx)
