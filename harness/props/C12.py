"""C12 — ignore patterns exclude consistently and only ever accumulate."""
import random, json, copy
import pathspec
from . import _scn
from .. import monitors as M, scenario, gen, rt, pool
from ..model import Driver

# (pattern, names it matches as a file, names it matches as a directory)
IGN = [
    ("*.tmp", ["x.tmp", "data.tmp"], ["d.tmp"]),
    ("*.bak", ["keep.bak"], []),
    ("cache", ["cache"], ["cache"]),
    ("tmp/", [], ["tmp"]),
    ("[ab].log", ["a.log", "b.log"], []),
    ("d?e.txt", ["d e.txt", "dxe.txt"], []),
    ("Thumbs.db", ["Thumbs.db"], []),
]


def consistency_pair(rnd):
    """(scenario without ignored entries, scenario with them, patterns)"""
    fs = gen.FsSim()
    gen.gen_tree(rnd, fs, max_depth=2)
    pats = rnd.sample(IGN, rnd.randint(1, 3))
    spec = pathspec.PathSpec.from_lines("gitwildmatch", [p for p, _, _ in pats])
    # remove entries of the base tree that the patterns would hide (so that both trees agree on the visible part)
    for p in list(fs.files):
        parts = p.split("/")
        if any(spec.match_file("/".join(parts[: i + 1])) for i in range(len(parts))):
            del fs.files[p]
    for d in list(fs.dirs):
        parts = d.split("/")
        if d and any(spec.match_file("/".join(parts[: i + 1])) for i in range(len(parts))):
            fs.dirs.discard(d)
    fs.dirs = {d for d in fs.dirs if all(("/".join(d.split("/")[:i]) in fs.dirs or i == 0) for i in range(1, len(d.split("/"))))} | {""}
    fs.files = {p: c for p, c in fs.files.items() if ("/".join(p.split("/")[:-1]) in fs.dirs)}
    base = gen.tree_dict(fs)
    extra = {}
    dirs = sorted(fs.dirs)
    for pat, fnames, dnames in pats:
        for _ in range(rnd.randint(1, 2)):
            d = rnd.choice(dirs)
            if fnames and rnd.random() < 0.7:
                extra[(d + "/" if d else "") + rnd.choice(fnames)] = "ignored content " + pat
            elif dnames:
                dn = (d + "/" if d else "") + rnd.choice(dnames)
                extra[dn + "/inner.txt"] = "inside ignored dir"
                extra[dn + "/sub/deep.txt"] = "deep"
                if pat.endswith("/") and dn not in base and dn + "/" not in base and not any(x == dn for x in base):
                    # `name/` only matches what is INSIDE the directory: the (then empty) directory itself is an entry
                    base[dn + "/"] = None
    ok = {}
    for k, v in extra.items():
        allk = list(base) + list(ok)
        parts = k.split("/")
        parents = ["/".join(parts[:i]) for i in range(1, len(parts))]
        if k in allk or k + "/" in allk or any(pp in allk for pp in parents) or any(x.startswith(k + "/") for x in allk):
            continue
        ok[k] = v
    extra = ok
    h = gen.fmt_subset(rnd, (1, 2))
    plist = [p for p, _, _ in pats]
    giveas = rnd.choice(["i", "ii", "both"])
    op = {"op": "create", "at": "", "h": h, "now": "2026-03-01 12:00:00"}
    if giveas == "i":
        op["i"] = plist
    elif giveas == "ii":
        op["ii"] = plist
    else:
        op["i"] = plist[:1]
        op["ii"] = plist[1:] or plist[:1]
    a = {"root": "root", "tree": dict(base), "ops": [op]}
    b_ops = [dict(op)]
    ks = sorted(extra)
    if ks:
        b_ops.append({"op": "write", "path": ks[0], "data": "CHANGED ignored"})
        if len(ks) > 1:
            b_ops.append({"op": "rm", "path": ks[-1]})
        d0 = rnd.choice(dirs)
        fnames_all = [f for p, fn, _ in pats for f in fn]
        cand = (d0 + "/" if d0 else "") + (rnd.choice(fnames_all) if fnames_all else "")
        allk = set(base) | set(extra)
        if fnames_all and cand not in allk and cand + "/" not in allk and not any(x.startswith(cand + "/") for x in allk):
            b_ops.append({"op": "write", "path": cand, "data": "new ignored"})
    for c in ("verify", "verifydh", "diff"):
        b_ops.append({"op": c, "at": ""})
    b_ops.append({"op": "create", "at": "", "h": h, "now": "2026-03-01 12:00:05"})
    b = {"root": "root", "tree": {**base, **extra}, "ops": b_ops, "c12": {"patterns": plist, "extra": sorted(extra)}}
    return a, b, plist


def consistency(ctx, n, drv_for_model=False):
    rnd = random.Random(ctx.seed * 7 + 12)
    fails, evals = [], 0
    for _ in range(n):
        a, b, plist = consistency_pair(rnd)
        if not b["c12"]["extra"]:
            continue
        # the extra entries must really be matched (oracle sanity): otherwise skip
        ra = scenario.run_scenario(a, impl_only=True)
        rb = scenario.run_scenario(b, impl_only=True)
        evals += 1
        wa = ra["steps"][0]["impl"]["written"]
        wb = rb["steps"][0]["impl"]["written"]
        ca = [(w["hist"], scenario.canon_gen_impl(w["gen"])) for w in wa]
        cb = [(w["hist"], scenario.canon_gen_impl(w["gen"])) for w in wb]
        if ca != cb:
            fails.append({"what": f"generation sealed with patterns {plist} differs when the ignored entries {b['c12']['extra']} are present: records/directory hashes with {[(r['path']) for _, g in cb for r in g['records']]} vs without {[(r['path']) for _, g in ca for r in g['records']]}", "replay": b})
        for st in rb["steps"][1:]:
            if st["impl"] is not None and (st["impl"]["exit"] != 0 or st["impl"]["exc"]):
                fails.append({"what": f"{st['op']['op']} exits {st['impl']['exit']} {st['impl']['exc'] or ''} after only ignored entries {b['c12']['extra']} (patterns {plist}) were edited / added / deleted; output: {st['impl']['out'][-200:]!r}", "replay": b})
    return fails, evals


def matcher_agreement(ctx, n):
    """the Lean fragment matcher vs pathspec on generated (patterns, path) pairs"""
    rnd = random.Random(ctx.seed * 13 + 5)
    drv = Driver()
    diffs = []
    names = ["a", "b", "a.txt", "x.tmp", "d.tmp", "tmp", "cache", "d e.txt", "dxe.txt", "a.log", "c.log", "A", "é", "ascmhl", ".DS_Store", "Thumbs.db", "s", "t"]
    pats = [p for p, _, _ in IGN] + gen.PATTERNS + [".DS_Store", "ascmhl", "ascmhl/", "?", "*", "a*", "*a", "[a-c]", "[!a]"]
    # anchored patterns (a slash at the beginning or in the middle) and negations
    pats += ["s/t", "/a", "/a.txt", "A/*.txt", "a/b/", "s/t/", "/tmp/", "*/a", "a/*", "!a.txt", "!*.tmp", "!tmp/", "!s/t", "!a", "!/a", "!x.tmp", "!*"]
    k = 0
    try:
        for _ in range(n):
            ps = rnd.sample(pats, rnd.randint(1, 4))
            path = "/".join(rnd.choice(names) for _ in range(rnd.randint(1, 4)))
            exp = pathspec.PathSpec.from_lines("gitwildmatch", ps).match_file(path)
            got = drv.send({"op": "match", "patterns": ps, "path": path})["hit"]
            k += 1
            if exp != got:
                diffs.append({"what": f"pattern matcher: model {got} pathspec {exp} for patterns {ps} path {path!r}", "replay": {"patterns": ps, "path": path}})
    finally:
        drv.close()
    return diffs, k


def mon(sc, res):
    fails = M.m_c12_lists(sc, res)
    # "a path matched by the effective patterns is never hashed or recorded" / what is not matched is: the record-level
    # oracle of C02, restricted to its pattern-related findings
    fails += [f for f in M.m_c02(sc, res) if "which is not" in f["what"] or "records in the new generation" in f["what"]]
    if sc.get("profile") == "c12-dh-cli":
        for st in res["steps"]:
            op, io_ = st["op"], st["impl"]
            if io_ is not None and op["op"] in ("verifydh", "verify", "diff") and (io_["exc"] is not None or io_["exit"] != 0):
                fails.append({"what": f"{op['op']} {json.dumps({k: v for k, v in op.items() if k != 'op'})} exits {io_['exit']} {io_['exc'] or ''}: the only change since sealing is a new entry that the pattern given on the command line matches", "replay": sc})
    for st in res["steps"]:
        op, io_ = st["op"], st["impl"]
        if io_ is not None and io_["exc"] is None and op["op"] in ("create", "verify", "diff") and not op.get("sf"):
            # whichever way "matched" is read: an entry that is on disk is either excluded (then it is not reported) or
            # not excluded (then it is found) - it can never be reported missing
            at = op.get("at", "")
            for p in io_.get("missing", []):
                full = (at + "/" + p) if at else p
                if full in io_["media_after"]:
                    fails.append({"what": f"{op['op']} {json.dumps({k: v for k, v in op.items() if k not in ('op', 'now')}, ensure_ascii=False)} reports {p!r} missing although it is on disk (patterns in force exclude it from the traversal but not from the completeness check)", "replay": sc})
        if op["op"] != "create" or io_ is None or io_["exc"] is not None:
            continue
        for h, lst in M.written_by_hist(io_, op.get("at", "")).items():
            for name, m, _ in lst:
                for r in m["records"]:
                    comps = r["path"].split("/")
                    if "ascmhl" in comps or ".DS_Store" in comps:
                        fails.append({"what": f"{h}/ascmhl/{name}: record for {r['path']!r} - the ascmhl folders and .DS_Store must always be excluded (create {json.dumps({k: v for k, v in op.items() if k not in ('op', 'now')}, ensure_ascii=False)})", "replay": sc})
    return fails


def late_dir_pattern_scenarios():
    """a folder that an earlier generation recorded is later covered by a directory pattern"""
    t = {"a.txt": "a", "s/b.txt": "b", "s/n/c.txt": "c", "tmp/x.bin": "x", "e/": None}
    out = []
    for pat in ("s/", "tmp/", "n/", "e/"):
        ops = [{"op": "create", "at": "", "h": ["md5"], "now": "2026-03-01 12:00:01"}, {"op": "verify", "at": "", "i": [pat]}, {"op": "diff", "at": "", "i": [pat]}, {"op": "verifydh", "at": "", "i": [pat]},
               {"op": "create", "at": "", "h": ["md5"], "now": "2026-03-01 12:00:02", "i": [pat]}, {"op": "verify", "at": ""}, {"op": "create", "at": "", "h": ["sha1"], "now": "2026-03-01 12:00:03"}]
        out.append({"profile": "c12-late-dir", "root": "root", "tree": dict(t), "ops": ops})
    return out


def cli_pattern_dh_scenarios():
    """a pattern given on the command line of verify -dh hides what it matches there as well: a file that appeared after
    sealing and matches it does not count"""
    out = []
    for pat, newf in (("*.bak", "s/new.bak"), ("scratch", "scratch/x.bin"), ("*.bak", "new.bak")):
        t = {"a.txt": "a", "s/b.txt": "b", "s/n/c.txt": "c"}
        out.append({"profile": "c12-dh-cli", "root": "root", "tree": t, "ops": [{"op": "create", "at": "", "h": ["md5"], "now": "2026-03-01 12:00:01"}, {"op": "write", "path": newf, "data": "appeared later"},
                    {"op": "verifydh", "at": "", "i": [pat]}, {"op": "verify", "at": "", "i": [pat]}, {"op": "diff", "at": "", "i": [pat]}, {"op": "verifydh", "at": "", "ii": [pat]}]})
    return out


def path_dependent_scenarios():
    """the same base name inside and outside an ignored region; history patterns with -sf <folder>"""
    out = []
    for pat in ("proxies/", "A001/clip001.mov", "/proxies", "proxies"):
        t = {"A001/clip001.mov": "original", "proxies/clip001.mov": "proxy", "proxies/sub/clip001.mov": "proxy2", "B/proxies/clip001.mov": "b proxy", "clip001.mov": "top"}
        out.append({"profile": "c12-same-name", "root": "root", "tree": t, "ops": [{"op": "create", "at": "", "h": ["md5"], "now": "2026-03-01 12:00:01", "i": [pat]}, {"op": "verify", "at": ""},
                    {"op": "create", "at": "", "h": ["sha1"], "now": "2026-03-01 12:00:02"}]})
    t = {"s/a.txt": "a", "s/x.tmp": "scratch", "s/cache/y.bin": "y", "top.tmp": "t", "top.txt": "tt"}
    for pats in (["*.tmp"], ["cache"], ["*.tmp", "cache/"]):
        out.append({"profile": "c12-sf-history-patterns", "root": "root", "tree": dict(t), "ops": [{"op": "create", "at": "", "h": ["md5"], "now": "2026-03-01 12:00:01", "i": pats},
                    {"op": "create", "at": "", "h": ["md5"], "now": "2026-03-01 12:00:02", "sf": ["s"]}, {"op": "create", "at": "", "h": ["sha1"], "now": "2026-03-01 12:00:03", "sf": ["s", "top.txt"]}, {"op": "verify", "at": ""}]})
    return out


def fixed_scenarios():
    t = {"a.txt": "a", "x.tmp": "t", "s/b.txt": "b", "s/.DS_Store": "junk", ".DS_Store": "junk", "s/n/c.txt": "c"}
    out = []
    for i, kw in enumerate([{"i": ["*.tmp", "*.tmp"]}, {"ii": ["a.txt", "b.txt", "a.txt"]}, {"i": ["*.tmp", "s/"], "ii": ["*.tmp", "q", "q"]}, {"i": [".DS_Store", "ascmhl", "*.tmp"]}]):
        ops = [{"op": "create", "at": "s/n", "h": ["md5"], "now": "2026-03-01 12:00:00"}, dict({"op": "create", "at": "", "h": ["md5"], "now": "2026-03-01 12:00:01", "spell": ["slash", "dot", "relative", "cwd"][i]}, **kw),
               dict({"op": "create", "at": "", "h": ["md5"], "now": "2026-03-01 12:00:02"}, **kw), {"op": "create", "at": "s", "h": ["md5"], "now": "2026-03-01 12:00:03", "spell": "slash"},
               {"op": "create", "at": "", "h": ["md5"], "now": "2026-03-01 12:00:04", "spell": "slash"}, {"op": "verify", "at": "", "spell": "slash"}, {"op": "verifydh", "at": "", "spell": "slash"}, {"op": "diff", "at": "", "spell": "slash"}]
        out.append({"profile": "c12-fixed", "root": "root", "tree": dict(t), "ops": ops})
    return out


def hash_sign_scenarios():
    """a pattern file has one pattern per line; a '#' inside a line is part of the pattern"""
    out = []
    for pats in (["take #2.mov", "Scene #3/"], ["notes # draft.txt"]):
        tree = {"take #2.mov": "t2", "take": "plain take", "Scene #3/a.mov": "a", "Scene/b.mov": "b", "notes # draft.txt": "n", "notes": "plain notes", "keep.mov": "k"}
        out.append({"profile": "c12-hash-sign", "root": "root", "tree": tree,
                    "ops": [{"op": "create", "at": "", "h": ["md5"], "now": "2026-03-01 12:00:01", "ii": pats}, {"op": "create", "at": "", "h": ["md5"], "now": "2026-03-01 12:00:02"},
                            {"op": "verify", "at": ""}, {"op": "diff", "at": ""}, {"op": "verifydh", "at": ""}]})
    return out


def run(ctx):
    scs = hash_sign_scenarios() + fixed_scenarios() + late_dir_pattern_scenarios() + cli_pattern_dh_scenarios() + path_dependent_scenarios() + _scn.standard_pool(ctx, ctx.scale(60, 1000), ctx.scale(25, 400))
    for k, sc in enumerate(scs):
        if k % 3 == 0 and "s/.DS_Store" not in sc["tree"]:
            sc["tree"][".DS_Store"] = "finder junk"
    cf, ce = consistency(ctx, ctx.scale(40, 600))
    md, mk = matcher_agreement(ctx, ctx.scale(10000, 100000))
    # matcher disagreements are correspondence differences: report through extra mechanism
    rc_extra = {"consistency_pairs": ce, "matcher_pairs_checked": mk, "matcher_disagreements": len(md)}
    fails = cf + [{"what": d["what"], "replay": d["replay"], "signature": None} for d in md[:5]] if md else cf
    return _scn.run_scn(ctx, scs, mon, witness_ids=("D10", "D5a", "D16"), extra_fails=fails, extra_cov=rc_extra,
        assumptions=["pattern fragment: literals and globs (* ? [..]) per component, directory patterns name/, patterns anchored by a leading or inner slash, negation (last match wins); no ** and no escapes", "'matched' = pathspec gitwildmatch on the path relative to the command root"])


def replay(ctx, path):
    return _scn.replay_generic(ctx, path, mon)
