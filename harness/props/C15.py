"""C15 — an interrupted create never damages what was already recorded."""
import os, random, json, re, shutil
from .. import rt, framework as fw, crash, scenario, gen, witnesses
from . import _scn


def protocol_accepts(trace, root):
    """the write protocol of the model (MhlModel/Crash.lean HistCommit.ops): per history
       [mkdir <h>/ascmhl]  open <m>.tmp (w)  write* <m>.tmp  [flush]  close  replace <m>.tmp -> <m>
       open <chain>.tmp (w)  write*  [flush]  close  replace <chain>.tmp -> <chain>
    histories one after the other.  Returns a list of problems."""
    probs = []
    i, n = 0, len(trace)

    def rel(p):
        return os.path.relpath(p, root)

    def take_file(i, final_pred):
        # open X.tmp, writes, flush?, close, replace X.tmp -> X
        if i >= n or trace[i][0] != "open" or "w" not in trace[i][2]:
            return None, f"expected open(<name>.tmp, 'wb') at op {i}: {trace[i] if i < n else 'end'}"
        tmp = trace[i][1]
        if not tmp.endswith(".tmp"):
            return None, f"op {i}: a final file name is opened for writing in place: {rel(tmp)}"
        final = tmp[: -len(".tmp")]
        if not final_pred(final):
            return None, f"op {i}: unexpected file {rel(final)}"
        i += 1
        while i < n and trace[i][0] == "write" and trace[i][1] == tmp:
            i += 1
        while i < n and trace[i][0] == "flush" and trace[i][1] == tmp:
            i += 1
        if i >= n or trace[i][0] != "close" or trace[i][1] != tmp:
            return None, f"op {i}: expected close of {rel(tmp)}, got {trace[i] if i < n else 'end'}"
        i += 1
        if i >= n or trace[i][0] != "replace" or trace[i][1] != tmp or trace[i][2] != final:
            return None, f"op {i}: expected replace {rel(tmp)} -> {rel(final)}, got {trace[i] if i < n else 'end'}"
        return i + 1, None

    while i < n:
        if trace[i][0] == "mkdir":
            if os.path.basename(trace[i][1]) != "ascmhl":
                probs.append(f"op {i}: mkdir of {rel(trace[i][1])}")
            i += 1
            continue
        j, err = take_file(i, lambda f: f.endswith(".mhl") and os.path.basename(os.path.dirname(f)) == "ascmhl")
        if err:
            probs.append(err)
            break
        j2, err = take_file(j, lambda f: os.path.basename(f) == "ascmhl_chain.xml" and os.path.dirname(f) == os.path.dirname(trace[i][1]))
        if err:
            probs.append(err)
            break
        i = j2
    return probs


def worlds(rnd, n):
    out = []
    for k in range(n):
        prior = rnd.choice([0, 1, 1, 2, 3])
        if k == 2:
            prior = 17  # a long history (writers that treat long files differently)
        nested = rnd.random() < 0.45
        tree = {"a.txt": "alpha", "s/b.txt": "beta", "s/t/c.txt": "gamma"}
        ops = []
        t = 0
        if nested:
            for d in rnd.sample(["s", "s/t"], rnd.randint(1, 2)):
                for _ in range(rnd.choice([1, 1, 2])):
                    t += 1
                    ops.append({"op": "create", "at": d, "h": gen.fmt_subset(rnd, (1, 2)), "now": "2026-03-01 12:00:%02d" % t})
        for _ in range(prior):
            t += 1
            ops.append({"op": "create", "at": "", "h": gen.fmt_subset(rnd, (1, 2)), "now": "2026-03-01 12:00:%02d" % t})
        final = {"op": "create", "at": rnd.choice(["", "", "s"]) if nested else "", "h": gen.fmt_subset(rnd, (1, 2)), "now": "2026-03-01 12:30:00"}
        if rnd.random() < 0.25:
            final["sf"] = ["a.txt"] if final["at"] == "" else ["b.txt"]
        if rnd.random() < 0.3:
            ops.append({"op": "write", "path": "new.txt", "data": "new"})
        if prior and rnd.random() < 0.4:
            # the run that is killed is not the first one that was: leftovers of an earlier interrupted create (half-written
            # temporary files) are lying in the history folders
            for h in [""] + (["s"] if nested else []):
                ops.append({"op": "staletmp", "hist": h, "torn": rnd.random() < 0.7})
        out.append({"root": "root", "tree": tree, "ops": ops, "final": final, "c15": {"prior_root_generations": prior, "nested": nested}})
    return out


def run(ctx):
    _scn.build_and_audit(ctx)
    rnd = random.Random(ctx.seed * 97 + 15)
    fails, corr, evals, states = [], [], 0, 0
    samples = []
    dist = {"prior": {}, "nested": 0, "states_per_world": []}
    for wi, w in enumerate(worlds(rnd, ctx.scale(9, 30))):
        base = rt.mktemp("c15_")
        try:
            impl = scenario.Impl({"root": "root", "tree": w["tree"]}, base)
            for op in w["ops"]:
                impl.run(dict(op))
            fin = dict(w["final"])

            def run_final():
                # in one world the rename onto the chain file is refused by the system (EBUSY: a scanner holds the file):
                # whatever the run does then, a kill at any point of it leaves the committed history intact
                if wi != 1:
                    return impl.run(fin)
                import errno
                real = os.replace

                def refusing(src, dst, *a, **k):
                    if str(dst).endswith("ascmhl_chain.xml"):
                        raise OSError(errno.EBUSY, "Device or resource busy (injected)")
                    return real(src, dst, *a, **k)

                os.replace = refusing
                try:
                    return impl.run(fin)
                finally:
                    os.replace = real

            res = crash.enumerate_crash_states(impl.root, run_final, torn_mode="all" if ctx.thorough and wi < 5 else "sample", limit=ctx.scale(120, 800) if w["c15"]["prior_root_generations"] > 10 else ctx.scale(260, 2500))
            evals += 1
            states += res["states"]
            dist["prior"][w["c15"]["prior_root_generations"]] = dist["prior"].get(w["c15"]["prior_root_generations"], 0) + 1
            dist["nested"] += int(w["c15"]["nested"])
            dist["states_per_world"].append(res["states"])
            # the trace must be accepted by the model's protocol
            full = res.get("trace_abs") or []
            # (the run whose rename was refused ends early: its trace is a prefix of the protocol, judged by the crash states)
            for p in ([] if wi == 1 else protocol_accepts([o for o in res["trace_full"] if o[0] != "readopen"], impl.root)):
                corr.append({"what": f"write trace of create is not accepted by the model's write protocol: {p}", "replay": {"world": w, "trace": res["trace"][:40]}})
            for prob in res["unrecoverable"]:
                # (the known finding D6b is the window between the mkdir of a first-ever history folder and its first chain
                # file, in which the run only writes that first generation; a folder made before the media is read is not it)
                sig = "zero_prior_generations" if ("refuses with 32" in prob and "[zero-prior-generation history" in prob and "[media files are read after" not in prob) else None
                fails.append({"what": prob, "replay": {"world": w, "trace": res["trace"][:60]}, "signature": sig})
            for prob in res.get("replay_errors", [])[:3]:
                corr.append({"what": f"write trace of create: {prob}", "replay": {"world": w, "trace": res["trace"][:40]}})
            if len(samples) < 2:
                samples.append({"world": w["c15"], "final": w["final"], "ops": res["ops"], "crash_states": res["states"], "trace_head": res["trace"][:8]})
            # the other way a create is killed: an exception that unwinds through its handlers (Ctrl-C, a failing
            # system call).  Every mutating call of the run is such a point once; a fresh world each time.
            if wi < ctx.scale(4, 12):
                def make_run(copy_root, w=w):
                    im = scenario.Impl.__new__(scenario.Impl)
                    im.sc, im.base, im.root = {"root": "root", "tree": {}}, os.path.dirname(copy_root), copy_root
                    im.iifile, im.flat_n = os.path.join(os.path.dirname(copy_root), "_ii.txt"), 0
                    return lambda: im.run(dict(w["final"]))
                # a second pristine world (the first one has been sealed by the complete run above)
                base2 = rt.mktemp("c15i_")
                try:
                    impl2 = scenario.Impl({"root": "root", "tree": w["tree"]}, base2)
                    for op in w["ops"]:
                        impl2.run(dict(op))
                    ri = crash.enumerate_interrupt_states(impl2.root, make_run)
                    states += ri["states"]
                    dist["interrupt_states"] = dist.get("interrupt_states", 0) + ri["states"]
                    for prob in ri["unrecoverable"]:
                        sig = "zero_prior_generations" if ("refuses with 32" in prob and "[zero-prior-generation history" in prob) else None
                        fails.append({"what": prob, "replay": {"world": w, "mode": "interrupt"}, "signature": sig})
                finally:
                    shutil.rmtree(base2, ignore_errors=True)
        finally:
            shutil.rmtree(base, ignore_errors=True)
    for msg in witnesses.ALL["D6"]():
        fails.append({"what": f"regression of fixed defect D6: {msg}", "replay": {"witness": "D6"}, "signature": None})
    cov = {"evaluations": states, "distinct_nontrivial": states,
           "rule": "one evaluation = one crash state (a prefix of the recorded file-system operations of the real create, the last write whole, absent or torn; and the same prefixes with the data still in user-space buffers - written but not yet flushed or closed - lost) materialised on a copy of the pre-state and examined: committed manifests byte-identical, chain parses and lists the committed generations, info and verify load the history, no partial file visible as a generation; worlds: flat and nested histories with 0..3 prior generations, folder and -sf mode",
           "samples": samples, "input_distribution": dist, "worlds": evals, "monitor": {"cases": states, "failing": len([f for f in fails if f.get('signature') is None])}, "exhaustive": bool(ctx.thorough),
           "exhaustive_note": "thorough: in the first five worlds every byte position of every write is a crash point" if ctx.thorough else "quick: writes are torn at 1 byte, the middle and the last byte"}
    return fw.finish(ctx, cov, fails, corr, assumptions=["process kill, not power loss: data that reached the OS before the kill stays (data handed to write() may or may not have reached it before flush/close: both extremes are enumerated), operations are not reordered", "os.replace is atomic"])


def replay(ctx, path):
    print(open(path).read()[:3000])
    return run(ctx)
