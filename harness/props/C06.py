"""C06 — histories are append-only and generations are numbered without gaps."""
from . import _scn
from .. import monitors as M


def run(ctx):
    scs = _scn.standard_pool(ctx, ctx.scale(50, 900), ctx.scale(30, 400), ctx.scale(4, 40))
    # folder and file names in decomposed unicode form (as copied from macOS volumes), nested
    nfd = {"root": "Cafe\u0301", "profile": "c06-nfd", "tree": {"e\u0301/a\u0308.txt": "x", "e\u0301/sub/b.txt": "y", "top.txt": "t"},
           "ops": [{"op": "create", "at": "e\u0301", "h": ["md5"], "now": "2026-03-01 12:00:00"}, {"op": "create", "at": "", "h": ["md5"], "now": "2026-03-01 12:00:01"},
                   {"op": "create", "at": "", "h": ["c4"], "now": "2026-03-01 12:00:02"}, {"op": "verify", "at": ""}, {"op": "info", "at": ""}]}
    scs.insert(0, nfd)
    return _scn.run_scn(ctx, scs, M.m_c06, assumptions=["the clock is the injected one (freezegun); several runs share a clock second on purpose"])


def replay(ctx, path):
    return _scn.replay_generic(ctx, path, M.m_c06)
