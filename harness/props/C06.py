"""C06 — histories are append-only and generations are numbered without gaps."""
from . import _scn
from .. import monitors as M


def utc_name_cases():
    """the time in a manifest's name is UTC whatever the host zone: runs under the REAL clock (a frozen clock hides the
    zone) in zones far from UTC"""
    import os, time, glob, re, calendar
    from .. import rt

    fails = []
    old = os.environ.get("TZ")
    try:
        for z in ("IST-5:30", "PST8PDT,M3.2.0,M11.1.0", "<+1245>-12:45", "<-11>11"):
            os.environ["TZ"] = z
            time.tzset()
            with rt.tempdir("c06_") as d:
                root = os.path.join(d, "root")
                rt.mk(root, {"a.txt": "a", "s/b.txt": "b"})
                rt.run("create", [os.path.join(root, "s"), "-h", "md5"])
                t0 = time.time()
                x = rt.run("create", [root, "-h", "md5"])
                t1 = time.time()
                names = [os.path.basename(p) for p in glob.glob(os.path.join(root, "ascmhl", "*.mhl")) + sorted(glob.glob(os.path.join(root, "s", "ascmhl", "*.mhl")))[1:]]
                for n in names:
                    m = re.match(r"^\d{4,}_.*_(\d{4}-\d{2}-\d{2}_\d{6})Z\.mhl$", n)
                    st = calendar.timegm(time.strptime(m.group(1), "%Y-%m-%d_%H%M%S")) if m else None
                    if st is None or not (int(t0) - 1 <= st <= int(t1) + 1):
                        fails.append({"what": f"TZ={z}: create at UTC {time.strftime('%Y-%m-%d_%H%M%S', time.gmtime(t0))} names its manifest {n}: the name does not carry the UTC time", "replay": {"case": "utc_name", "tz": z}})
                if x.exit != 0 or len(names) != 2:
                    fails.append({"what": f"TZ={z}: create exit {x.exit}, new manifests {names}", "replay": {"case": "utc_name", "tz": z}})
    finally:
        if old is None:
            os.environ.pop("TZ", None)
        else:
            os.environ["TZ"] = old
        time.tzset()
    return fails


def day_change_cases(ctx):
    """one create under a simulated process clock in which every reading of the clock shows a later second, started so
    that UTC midnight falls between the k-th and the (k+1)-th reading, for EVERY k of the run: the time in the name of
    the new manifest has to be one of the instants the clock showed (a name put together from two readings carries a
    time that no clock ever showed - a day off around midnight)."""
    import os, json, re, calendar, time, subprocess
    from concurrent.futures import ThreadPoolExecutor
    from .. import rt

    fails = []
    midnight = calendar.timegm((2021, 3, 1, 0, 0, 0))
    script = os.path.join(rt.VERIF, "harness", "simclock_case.py")

    def one(k):
        with rt.tempdir("c06d_") as d:
            root = os.path.join(d, "Reel")
            rt.mk(root, {"a.txt": "a", "s/b.txt": "b"})
            start = midnight - k - 0.5  # reading number j shows start + j
            pr = subprocess.run(["/venv/bin/python", script, rt.REPO, root, str(start), "1"], capture_output=True, text=True, timeout=120, env=dict(os.environ, TZ="UTC"))
            try:
                return k, json.loads(pr.stdout.strip().splitlines()[-1])
            except Exception:
                return k, {"error": (pr.stderr or pr.stdout)[-300:]}

    _, first = one(0)
    if "error" in first:
        return [{"what": f"create under the simulated clock failed: {first['error']}", "replay": {"case": "day_change"}}]
    n = len(first["shown"])
    ks = list(range(0, n + 1)) if ctx.thorough or n <= 60 else list(range(0, n + 1, max(1, n // 60)))
    with ThreadPoolExecutor(8) as ex:
        for k, r in ex.map(one, ks):
            if "error" in r:
                fails.append({"what": f"create under the simulated clock (midnight after reading {k}) failed: {r['error']}", "replay": {"case": "day_change", "k": k}})
                continue
            shown = {time.strftime("%Y-%m-%d_%H%M%S", time.gmtime(t)) for t in r["shown"]}
            for nm in r["names"]:
                m = re.match(r"^\d{4,}_.*_(\d{4}-\d{2}-\d{2}_\d{6})Z\.mhl$", nm)
                if r["exit"] != 0 or not m or m.group(1) not in shown:
                    fails.append({"what": f"create (exit {r['exit']}) with UTC midnight between clock readings {k} and {k + 1} names its manifest {nm}; the clock showed {min(shown)} .. {max(shown)} during the run", "replay": {"case": "day_change", "k": k, "name": nm}})
            if len(r["names"]) != 1:
                fails.append({"what": f"create under the simulated clock wrote manifests {r['names']}", "replay": {"case": "day_change", "k": k}})
    return fails


def write_order_cases(ctx):
    """the order in which create writes (per history: the manifest through its temporary, then the chain through its
    temporary; nested histories before their parents) is the order the model's commit and crash theorems assume: the
    recorded file-system operations of real runs on nested worlds must be accepted by that protocol"""
    import os, shutil
    from .. import rt, scenario, crash
    from .C15 import protocol_accepts

    out = []
    for k, (nested, final_at, sf) in enumerate([(["s", "s/t"], "", None), (["s/t"], "", None), (["s"], "", ["a.txt"]), ([], "", None)]):
        base = rt.mktemp("c06w_")
        try:
            impl = scenario.Impl({"root": "root", "tree": {"a.txt": "alpha", "s/b.txt": "beta", "s/t/c.txt": "gamma"}}, base)
            t = 0
            for d in nested + [""]:
                t += 1
                impl.run({"op": "create", "at": d, "h": ["md5"], "now": "2026-03-01 12:00:%02d" % t})
            fin = {"op": "create", "at": final_at, "h": ["sha1"], "now": "2026-03-01 12:30:00"}
            if sf:
                fin["sf"] = sf
            trace, _ = crash.record_trace(lambda: impl.run(fin), watch_prefix=os.path.abspath(impl.root))
            for p in protocol_accepts(trace, impl.root):
                out.append({"what": f"write order of create (nested histories {nested}) is not the protocol of the model: {p}", "replay": {"nested": nested, "final": fin}})
        finally:
            shutil.rmtree(base, ignore_errors=True)
    return out


def interrupted_runs(ctx):
    """a create that is interrupted by an exception (Ctrl-C, disk full) changes no byte of an existing manifest and keeps
    every earlier chain entry"""
    import os, shutil, errno
    from .. import rt, scenario, crash

    def examine(pre, dst, post, label):
        probs = []
        cur = crash.committed_state(dst)
        for a, st in pre.items():
            for name, b in st["manifests"].items():
                if cur.get(a, {"manifests": {}})["manifests"].get(name) != b:
                    probs.append(f"{label}: existing manifest {a}/{name} changed or vanished")
            if st["chain"] is not None:
                c = cur.get(a, {}).get("chain")
                if not isinstance(c, list):
                    probs.append(f"{label}: chain file of {a} is {'missing' if c is None else 'not well-formed'}")
                elif c[: len(st["chain"])] != st["chain"]:
                    probs.append(f"{label}: earlier chain entries of {a} changed")
        # whatever the chain files list now - in every history the run touched - names a manifest that is there, with
        # the recorded digest (an entry without its file is a gap; an interrupted run appends at most one entry)
        for a, st in cur.items():
            c = st.get("chain")
            if not isinstance(c, list):
                continue
            if len(c) > len((pre.get(a) or {}).get("chain") or []) + 1:
                probs.append(f"{label}: chain of {a} grew by more than one entry")
            for e in c:
                b = st["manifests"].get(e.get("path"))
                if b is None:
                    probs.append(f"{label}: chain of {a} lists {e.get('path')}, which is not in the folder (any more)")
                elif e.get("fmt") == "c4" and rt.c4_of_bytes(b) != e.get("digest"):
                    probs.append(f"{label}: chain of {a} lists {e.get('path')} with a digest that is not the digest of its bytes")
        return probs

    fails = []
    for nested, exc in ((["s"], KeyboardInterrupt), (["s", "s/t"], OSError(errno.ENOSPC, "No space left on device (injected)"))):
        base = rt.mktemp("c06i_")
        try:
            impl = scenario.Impl({"root": "root", "tree": {"a.txt": "alpha", "s/b.txt": "beta", "s/t/c.txt": "gamma"}}, base)
            t = 0
            for d in nested + ["", ""]:
                t += 1
                impl.run({"op": "create", "at": d, "h": ["md5"], "now": "2026-03-01 12:00:%02d" % t})

            def make_run(copy_root):
                im = scenario.Impl.__new__(scenario.Impl)
                im.sc, im.base, im.root = {"root": "root", "tree": {}}, os.path.dirname(copy_root), copy_root
                im.iifile, im.flat_n = os.path.join(os.path.dirname(copy_root), "_ii.txt"), 0
                return lambda: im.run({"op": "create", "at": "", "h": ["sha1"], "now": "2026-03-01 12:30:00"})

            r = crash.enumerate_interrupt_states(impl.root, make_run, examine=examine, exc=exc)
            for p in r["unrecoverable"]:
                fails.append({"what": p, "replay": {"case": "interrupted create", "nested": nested, "exception": repr(exc)}})
        finally:
            shutil.rmtree(base, ignore_errors=True)
    return fails


def run(ctx):
    scs = _scn.standard_pool(ctx, ctx.scale(50, 900), ctx.scale(30, 400), ctx.scale(4, 40))
    # generations written in the days around New Year (calendar year and week-based year differ there)
    scs.insert(0, {"profile": "c06-new-year", "root": "reel", "tree": {"a.txt": "a", "s/b.txt": "b"},
                   "ops": [{"op": "create", "at": "s", "h": ["md5"], "now": "2024-12-29 23:59:59"}] + [{"op": "create", "at": "", "h": ["md5"], "now": n} for n in
                           ("2024-12-30 08:00:00", "2024-12-31 23:59:59", "2025-01-01 00:00:00", "2026-12-31 12:00:00", "2027-01-01 00:00:01", "2027-01-03 10:00:00")] + [{"op": "info", "at": ""}]})
    # folder and file names in decomposed unicode form (as copied from macOS volumes), nested
    nfd = {"root": "Cafe\u0301", "profile": "c06-nfd", "tree": {"e\u0301/a\u0308.txt": "x", "e\u0301/sub/b.txt": "y", "top.txt": "t"},
           "ops": [{"op": "create", "at": "e\u0301", "h": ["md5"], "now": "2026-03-01 12:00:00"}, {"op": "create", "at": "", "h": ["md5"], "now": "2026-03-01 12:00:01"},
                   {"op": "create", "at": "", "h": ["c4"], "now": "2026-03-01 12:00:02"}, {"op": "verify", "at": ""}, {"op": "info", "at": ""}]}
    scs.insert(0, nfd)
    # the civil-date rendering of the name (MhlModel/Civil.lean): model vs datetime arithmetic, and vs the names the real
    # create gives under a frozen clock
    from .. import civil_case
    lib_d, lib_n = civil_case.library(ctx.seed, ctx.scale(2000, 60000))
    cl_f, cl_d, cl_n = civil_case.command_line(ctx.seed, ctx.scale(10, 150))
    return _scn.run_scn(ctx, scs, M.m_c06, extra_fails=utc_name_cases() + interrupted_runs(ctx) + day_change_cases(ctx) + cl_f, extra_diffs=write_order_cases(ctx) + lib_d + cl_d, extra_cov={"civil_dates": {"library_cases": lib_n, "command_line_cases": cl_n}}, assumptions=["the clock is the injected one (freezegun); several runs share a clock second on purpose"])


def replay(ctx, path):
    return _scn.replay_generic(ctx, path, M.m_c06)
