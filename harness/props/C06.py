"""C06 — histories are append-only and generations are numbered without gaps."""
from . import _scn
from .. import monitors as M


def run(ctx):
    scs = _scn.standard_pool(ctx, ctx.scale(50, 900), ctx.scale(30, 400), ctx.scale(4, 40))
    return _scn.run_scn(ctx, scs, M.m_c06, assumptions=["the clock is the injected one (freezegun); several runs share a clock second on purpose"])


def replay(ctx, path):
    return _scn.replay_generic(ctx, path, M.m_c06)
