"""C03 — verification reports every discrepancy and never a false one."""
import random, json
from . import _scn
from .. import mutate, gen, monitors as M, largefiles


def build(seed):
    rnd = random.Random(seed)
    tree, seal_ops, fs, pats = mutate.sealed_world(rnd, no_dirhash_p=0.3)
    mut_ops, truth = ([], {"altered": set(), "removed": set(), "added": set()}) if rnd.random() < 0.25 else mutate.mutations(rnd, fs, pats)
    if rnd.random() < 0.4:
        seal_ops = seal_ops + [{"op": "verify", "at": ""}]  # the sealed tree is verified once before anything happens to it
    checks = [{"op": "verify", "at": ""}, {"op": "diff", "at": ""}, {"op": "create", "at": "", "h": gen.fmt_subset(rnd, (1, 2)), "now": "2026-03-01 12:30:00"},
              {"op": "verify", "at": "", "after_reseal": True}]
    if rnd.random() < 0.3:
        checks[0]["spell"] = rnd.choice(["slash", "relative", "cwd", "dot"])
    late = None
    # (folder names that contain characters with a special meaning in a pattern are not used AS patterns)
    dirs_now = sorted(d for d in fs.dirs if d and d not in truth["removed"] and not any(ch in d.split("/")[-1] for ch in "\\[]*?!#"))
    if dirs_now and rnd.random() < 0.3:
        # a directory pattern `name/` given only now: it hides what is INSIDE directories of that name, not the
        # directories themselves
        nm = rnd.choice(dirs_now).split("/")[-1]
        late = nm + "/"
        for c in checks:
            c["i"] = [late]
        import pathspec
        sp = pathspec.PathSpec.from_lines("gitwildmatch", [late])
        def hid(p):
            parts = p.split("/")
            return any(sp.match_file("/".join(parts[: i + 1])) for i in range(len(parts)))
        for k in truth:
            truth[k] = {p for p in truth[k] if not hid(p)}
    if late is None:
        # the same questions asked at the root of every nested history (its own generations carry the patterns of the
        # parent runs that wrote into it)
        gone = lambda d: any(d == r or d.startswith(r + "/") for r in truth["removed"])
        nested = sorted({o["at"] for o in seal_ops if o["op"] == "create" and o.get("at") and not mutate.hidden(o["at"], pats) and not gone(o["at"])})
        extra = []
        for d in nested:
            extra += [{"op": "verify", "at": d}, {"op": "diff", "at": d}]
        checks = checks[:2] + extra + checks[2:]
    sc = {"seed": seed, "profile": "c03", "root": rnd.choice(["root", "my root"]), "tree": tree, "ops": seal_ops + mut_ops + checks,
          "c03": {"altered": sorted(truth["altered"]), "removed": sorted(truth["removed"]), "added": sorted(truth["added"]), "patterns": pats, "late_pattern": late, "n_seal": len(seal_ops), "n_mut": len(mut_ops)}}
    return sc


def monitor(sc, res):
    meta = sc.get("c03")
    if not meta:
        return []
    fails = []
    alt, rem, add = set(meta["altered"]), set(meta["removed"]), set(meta["added"])
    # files added below a removed... (not generated).  A removed directory's recorded children would be missing as well.
    steps = res["steps"][meta["n_seal"] + meta["n_mut"]:]
    alt0, rem0 = set(meta["altered"]), set(meta["removed"])
    for st in steps:
        op, io_ = st["op"], st["impl"]
        if io_ is None:
            continue
        k = op["op"]
        if io_["exc"] is not None:
            fails.append({"what": f"{k} aborted with {io_['exc']} (truth {meta})", "replay": sc})
            continue
        e = io_["exit"]
        at = op.get("at", "")
        if at:
            # asked at a nested history: the part of the ground truth that lies below it, relative to it
            alt, rem, add = ({p[len(at) + 1:] for p in x if p.startswith(at + "/")} for x in (set(meta["altered"]), set(meta["removed"]), set(meta["added"])))
        else:
            alt, rem, add = set(meta["altered"]), set(meta["removed"]), set(meta["added"])
        if k == "verify":
            exp = 11 if alt else (21 if add else (10 if rem else 0))
        elif k == "diff":
            exp = 10 if rem else (21 if add else 0)
        else:
            exp = 11 if alt else (10 if rem else 0)
        if e != exp:
            fails.append({"what": f"{k}{' at ' + repr(at) if at else ''} exits {e}, expected {exp}: altered {sorted(alt)}, removed {sorted(rem)}, added {sorted(add)}, patterns {meta['patterns']}", "replay": sc})
        if meta.get("exit_only"):
            if k == "create":
                break
            continue
        if k in ("verify", "create") and set(io_["mismatch"]) != alt:
            fails.append({"what": f"{k} names hash mismatches {sorted(io_['mismatch'])}, altered files are {sorted(alt)}", "replay": sc})
        if set(io_["missing"]) != rem:
            fails.append({"what": f"{k} names missing {sorted(io_['missing'])}, removed entries are {sorted(rem)}", "replay": sc})
        if k in ("verify", "diff") and set(io_["new"]) != add:
            fails.append({"what": f"{k} names new files {sorted(io_['new'])}, added files are {sorted(add)}", "replay": sc})
        if k == "create":
            # the create re-seals: files that appeared are recorded now, but an altered file stays altered (the failed
            # generation never becomes the reference) and a removed one stays missing
            post = [s2 for s2 in steps[steps.index(st) + 1:] if s2["op"].get("after_reseal") and s2["impl"] is not None]
            for s2 in post:
                e2 = s2["impl"]["exit"]
                exp2 = 11 if alt0 else (10 if rem0 else 0)
                if s2["impl"]["exc"] is not None or e2 != exp2:
                    fails.append({"what": f"verify after the re-sealing create exits {e2} {s2['impl']['exc'] or ''}, expected {exp2}: altered {sorted(alt0)} (a failed generation never becomes the reference), removed {sorted(rem0)}", "replay": sc})
            break
    return fails


def fixed():
    """a parent's directory pattern reaches the nested history: asked at the nested root, the unchanged tree is clean"""
    out = []
    for pat in ("cache/", "*.bin", "A/cache", "cache"):
        tree = {"A/cache/thumb.bin": "t", "A/x.txt": "x", "top.txt": "top", "cache/other.bin": "o"}
        # the nested history is sealed first; files that the parent's pattern covers appear afterwards
        seal = [{"op": "create", "at": "A", "h": ["md5"], "now": "2026-03-01 12:00:01"}, {"op": "write", "path": "A/sub/cache/deep.bin", "data": "d"}, {"op": "write", "path": "A/cache/late.bin", "data": "l"},
                {"op": "create", "at": "", "h": ["md5"], "now": "2026-03-01 12:00:02", "i": [pat]}]
        checks = [{"op": "verify", "at": ""}, {"op": "diff", "at": ""}] + ([{"op": "verify", "at": "A"}, {"op": "diff", "at": "A"}] if "/" not in pat.rstrip("/") else []) + [{"op": "create", "at": "", "h": ["sha1"], "now": "2026-03-01 12:30:00"}]
        out.append({"profile": "c03-fixed", "root": "root", "tree": tree, "ops": seal + checks,
                    "c03": {"altered": [], "removed": [], "added": [], "patterns": [pat], "late_pattern": None, "n_seal": 4, "n_mut": 0}})
    # a path that once was the old name of a rename, is recorded again later, and then deleted: it is missing
    tree = {"a.txt": "first a", "keep.txt": "k", "s/x.txt": "x"}
    seal = [{"op": "create", "at": "", "h": ["md5"], "now": "2026-03-01 12:00:01"}, {"op": "mv", "src": "a.txt", "dst": "b.txt"},
            {"op": "create", "at": "", "h": ["md5"], "now": "2026-03-01 12:00:02", "dr": True}, {"op": "write", "path": "a.txt", "data": "a new file under the old name"},
            {"op": "create", "at": "", "h": ["md5"], "now": "2026-03-01 12:00:03"}]
    out.append({"profile": "c03-old-name-again", "root": "root", "tree": tree, "ops": seal + [{"op": "rm", "path": "a.txt"}, {"op": "verify", "at": ""}, {"op": "diff", "at": ""}, {"op": "create", "at": "", "h": ["md5"], "now": "2026-03-01 12:30:00"}],
                "c03": {"altered": [], "removed": ["a.txt"], "added": [], "patterns": [], "late_pattern": None, "n_seal": 5, "n_mut": 1}})
    # three levels of histories (root > A > A/B), with and without directory hashes: untouched, and with one recorded
    # entry of the innermost history removed (a file / an empty folder); asked at every level
    for nodh in (False, True):
        for victim in (None, "A/B/c.txt", "A/B/E"):
            tree = {"A/B/c.txt": "c", "A/B/D/d.txt": "d", "A/B/E/": None, "A/x.txt": "x", "top.txt": "top"}
            kw = {"n": True} if nodh else {}
            seal = [dict({"op": "create", "at": at, "h": ["md5"], "now": "2026-03-01 12:00:0%d" % i}, **kw) for i, at in enumerate(["A/B", "A", ""])]
            if victim == "A/B/E" and nodh:
                continue  # (without directory hashes an empty folder leaves no record)
            mut = [] if victim is None else [{"op": "rm", "path": victim}]
            checks = []
            for at in ("", "A", "A/B"):
                checks += [{"op": "verify", "at": at}, {"op": "diff", "at": at}]
            checks.append(dict({"op": "create", "at": "", "h": ["md5"], "now": "2026-03-01 12:30:00"}, **kw))
            out.append({"profile": "c03-three-levels", "root": "root", "tree": tree, "ops": seal + mut + checks,
                        "c03": {"altered": [], "removed": [victim] if victim else [], "added": [], "patterns": [], "late_pattern": None, "n_seal": 3, "n_mut": len(mut)}})
    # a recorded empty folder removed and a FILE of the same name put in its place: the path is there, its entry is new
    out.append({"profile": "c03-folder-becomes-file", "impl_only": True, "root": "root", "tree": {"a.txt": "a", "e/": None, "s/f/": None, "s/b.txt": "b"},
                "ops": [{"op": "create", "at": "", "h": ["md5"], "now": "2026-03-01 12:00:01"}, {"op": "rm", "path": "e"}, {"op": "write", "path": "e", "data": "now a file"},
                        {"op": "rm", "path": "s/f"}, {"op": "write", "path": "s/f", "data": "now a file"}, {"op": "verify", "at": ""}, {"op": "diff", "at": ""}],
                "c03": {"altered": [], "removed": [], "added": ["e", "s/f"], "patterns": [], "late_pattern": None, "n_seal": 1, "n_mut": 4}})
    # the usual "no hidden files" pattern, then recorded entries removed
    for pat in (".*", "?", "[.]*"):
        tree = {"a.txt": "a", "sub/b.txt": "b", "sub/deep/c.txt": "c", ".hidden": "h", "sub/.DS_Info": "i", "x": "single letter name"}
        seal = [{"op": "create", "at": "", "h": ["md5"], "now": "2026-03-01 12:00:01", "i": [pat]}]
        removed = ["a.txt", "sub/deep", "sub/deep/c.txt"]
        out.append({"profile": "c03-hidden-pattern", "impl_only": True, "root": "root", "tree": tree,
                    "ops": seal + [{"op": "rm", "path": "a.txt"}, {"op": "rm", "path": "sub/deep"}] + [{"op": "verify", "at": ""}, {"op": "diff", "at": ""}, {"op": "create", "at": "", "h": ["md5"], "now": "2026-03-01 12:30:00"}],
                    "c03": {"altered": [], "removed": sorted(removed), "added": [], "patterns": [pat], "late_pattern": None, "n_seal": 1, "n_mut": 2}})
    # a whole folder of clips gone: every one of the missing paths is named
    big = {"clips/c%03d.mov" % i: "clip %d" % i for i in range(130)}
    big["keep.txt"] = "k"
    out.append({"profile": "c03-many-missing", "impl_only": True, "root": "root", "tree": big,
                "ops": [{"op": "create", "at": "", "h": ["md5"], "now": "2026-03-01 12:00:01"}, {"op": "rm", "path": "clips"}, {"op": "verify", "at": ""}, {"op": "diff", "at": ""}, {"op": "create", "at": "", "h": ["md5"], "now": "2026-03-01 12:30:00"}],
                "c03": {"altered": [], "removed": sorted(["clips"] + [k for k in big if k.startswith("clips/")]), "added": [], "patterns": [], "late_pattern": None, "n_seal": 1, "n_mut": 1}})
    # a nested history below a folder whose name begins with a dot is a nested history like any other
    for variant in ("alter", "resealed-child"):
        tree = {".proxies/day1/p.txt": "p", ".proxies/day1/q.txt": "q", "top.txt": "t"}
        seal = [{"op": "create", "at": ".proxies/day1", "h": ["md5"], "now": "2026-03-01 12:00:01"}, {"op": "create", "at": "", "h": ["md5"], "now": "2026-03-01 12:00:02"}]
        if variant == "alter":
            mut, truth = [{"op": "write", "path": ".proxies/day1/p.txt", "data": "ALTERED"}], {"altered": [".proxies/day1/p.txt"], "removed": [], "added": []}
        else:
            # a file added to the nested folder and sealed THERE: seen from the outer folder nothing is new
            mut, truth = [{"op": "write", "path": ".proxies/day1/late.txt", "data": "l"}, {"op": "create", "at": ".proxies/day1", "h": ["md5"], "now": "2026-03-01 12:00:03"}], {"altered": [], "removed": [], "added": []}
        out.append({"profile": "c03-dot-folder-history", "root": "root", "tree": tree,
                    "ops": seal + mut + [{"op": "verify", "at": ""}, {"op": "diff", "at": ""}, {"op": "create", "at": "", "h": ["md5"], "now": "2026-03-01 12:30:00"}],
                    "c03": dict(truth, patterns=[], late_pattern=None, n_seal=2, n_mut=len(mut))})
    # the whole folder of a nested history removed (its ascmhl folder with it): the enclosing history recorded the folder
    for nodh in (False, True):
        kw = {"n": True} if nodh else {}
        tree = {"A/x.txt": "x", "A/B/y.txt": "y", "top.txt": "t"}
        seal = [dict({"op": "create", "at": "A", "h": ["md5"], "now": "2026-03-01 12:00:01"}, **kw), dict({"op": "create", "at": "", "h": ["md5"], "now": "2026-03-01 12:00:02"}, **kw)]
        out.append({"profile": "c03-nested-folder-removed", "root": "root", "tree": tree,
                    "ops": seal + [{"op": "rm", "path": "A"}, {"op": "verify", "at": ""}, {"op": "diff", "at": ""}, dict({"op": "create", "at": "", "h": ["md5"], "now": "2026-03-01 12:30:00"}, **kw)],
                    "c03": {"altered": [], "removed": ["A"], "added": [], "patterns": [], "late_pattern": None, "n_seal": 2, "n_mut": 1}})
    # a pattern that only a nested history knows (it was sealed on its own with it) says nothing about same-named
    # entries elsewhere in the enclosing tree
    for kind in ("alter", "remove", "add"):
        tree = {"logs/x.txt": "x", "logs/z.txt": "z", "child/logs/y.txt": "y", "child/a.txt": "a", "top.txt": "top"}
        seal = [{"op": "create", "at": "child", "h": ["md5"], "now": "2026-03-01 12:00:01", "i": ["logs"]}, {"op": "create", "at": "", "h": ["md5"], "now": "2026-03-01 12:00:02"}]
        mut = {"alter": [{"op": "write", "path": "logs/x.txt", "data": "ALTERED"}], "remove": [{"op": "rm", "path": "logs/x.txt"}], "add": [{"op": "write", "path": "logs/new.txt", "data": "n"}]}[kind]
        truth = {"altered": ["logs/x.txt"] if kind == "alter" else [], "removed": ["logs/x.txt"] if kind == "remove" else [], "added": ["logs/new.txt"] if kind == "add" else []}
        out.append({"profile": "c03-nested-only-pattern", "root": "root", "tree": tree,
                    "ops": seal + mut + [{"op": "verify", "at": ""}, {"op": "diff", "at": ""}, {"op": "create", "at": "", "h": ["md5"], "now": "2026-03-01 12:30:00"}],
                    "c03": dict(truth, patterns=[], late_pattern=None, n_seal=2, n_mut=1)})
    # names that begin or end with a blank (the report texts cannot be split reliably for such names: judged on exit
    # codes only, which is what the flag says)
    tree = {"notes.txt ": "n", " lead.txt": "l", "Day 1 /x.txt": "x", "plain.txt": "p"}
    seal = [{"op": "create", "at": "", "h": ["md5"], "now": "2026-03-01 12:00:01"}]
    out.append({"profile": "c03-blanks", "root": "root", "tree": tree, "ops": seal + [{"op": "verify", "at": ""}, {"op": "diff", "at": ""}, {"op": "create", "at": "", "h": ["sha1"], "now": "2026-03-01 12:30:00"}],
                "c03": {"altered": [], "removed": [], "added": [], "patterns": [], "late_pattern": None, "n_seal": 1, "n_mut": 0, "exit_only": True}})
    return out


def run(ctx):
    scs = fixed() + [build(ctx.seed * 1000211 + i) for i in range(ctx.scale(170, 3000))]
    return _scn.run_scn(ctx, scs, monitor, extra_fails=largefiles.extra(ctx), witness_ids=("D11", "D13", "D14", "D16"),
        assumptions=["ground truth = the mutations the harness itself applied after the last folder-mode create of the root", "altered contents differ from the sealed ones (by construction), so their digests differ in every format used (observed)"])


def replay(ctx, path):
    return _scn.replay_generic(ctx, path, monitor)
