"""C19 — info reports the recorded history truthfully."""
import random, json, os, re
from . import _scn
from .. import gen, oracles as O, rt, scenario


def add_infos(sc, rnd):
    files = [k for k, v in sc["tree"].items() if v is not None]
    hist_dirs = sorted({o.get("at", "") for o in sc["ops"] if o["op"] == "create"})
    extra = []
    for _ in range(3):
        extra.append({"op": "info", "at": rnd.choice(hist_dirs + [""])})
        if files:
            f = rnd.choice(files)
            # nearest enclosing history of f among hist_dirs
            cands = [d for d in hist_dirs if d == "" or f.startswith(d + "/")]
            at = max(cands, key=len) if cands else ""
            if cands and rnd.random() < 0.4:
                # asked with an enclosing history as ROOT that is not the nearest one: the lines are still those of the
                # nearest enclosing history of the file
                at = rnd.choice(cands)
                extra.append({"op": "infosf", "at": at, "file": f[len(at) + 1 :] if at else f})
            else:
                extra.append({"op": "infosf", "at": at, "file": f[len(at) + 1 :] if at else f, "auto_root": rnd.random() < 0.5, "rel_cwd": rnd.random() < 0.35})
            if rnd.random() < 0.35:
                # several files in one call (also the same one twice), from the root
                fs_ = [rnd.choice(files) for _ in range(rnd.randint(2, 4))]
                extra.append({"op": "infosf", "at": "", "file": fs_[0], "files": fs_})
    # the listing is read on another machine: the dates shown are the recorded ones, whatever the reader's zone
    for o in extra:
        if rnd.random() < 0.3:
            o["tz"] = rnd.choice(["Asia/Tokyo", "America/New_York", "Asia/Kolkata", "<-0330>3:30"])
    # a folder without history
    sc["ops"] = sc["ops"] + extra
    return sc


def monitor(sc, res):
    fails = []
    for st in res["steps"]:
        op, io_ = st["op"], st["impl"]
        if io_ is None or op["op"] not in ("info", "infosf"):
            continue
        if io_["exc"] is not None:
            fails.append({"what": f"{op['op']} aborted with {io_['exc']}", "replay": sc})
            continue
        at = op.get("at", "")
        hs = O.histories(io_["asc_before"])
        tampered = any(o["op"] in ("tamper", "rmchain", "rmhist") for o in sc["ops"])
        if tampered:
            continue
        if at not in hs or not hs[at]["gens"]:
            if io_["exit"] != 30:
                fails.append({"what": f"{op['op']} on a folder without history exits {io_['exit']} (expected 30)", "replay": sc})
            continue
        if io_["exit"] != 0:
            fails.append({"what": f"{op['op']} exits {io_['exit']}", "replay": sc})
            continue
        lines = scenario.parse_info(io_["out"])
        if op["op"] == "info":
            # expected: the history at `at`, then every nested history in pre-order (children sorted by path components)
            roots = sorted([r for r in hs if O.within(r, at)], key=lambda r: r.split("/") if r else [])

            def children(r):
                ks = [k for k in roots if k != r and O.owner(k, set(roots), at) == r]
                return sorted(ks, key=lambda r: r.split("/"))

            order = []

            def walk(r):
                order.append(r)
                for k in children(r):
                    walk(k)

            walk(at)
            exp = []
            for r in order:
                for num, name, b in hs[r]["gens"]:
                    exp.append((r, num, O.parse_manifest_bytes(b)["creationdate"]))
            got = []
            absat = os.path.join(res["root"], at) if at else res["root"]
            lnk = os.path.join(os.path.dirname(res["root"]), "_lnk")
            for sec, n, date, _ in lines:
                if sec.startswith(lnk + os.sep):  # the root was spelled through the harness's symbolic link
                    sec = os.path.dirname(res["root"]) + sec[len(lnk):]
                rr = at if sec == "." else os.path.relpath(sec, res["root"])
                got.append(("" if rr == "." else rr, n, date))
            if got != exp:
                fails.append({"what": f"info lists generations {got}, the manifests on disk are {exp}", "replay": sc})
        else:
            got_secs = scenario.parse_infosf(io_["out"])
            asked = op.get("files") or [op["file"]]
            if len(got_secs) != len(asked):
                fails.append({"what": f"info -sf for {asked} prints {len(got_secs)} sections: {[h for h, _ in got_secs]}", "replay": sc})
                continue
            roots = [r for r in hs if O.within(r, at) and hs[r]["gens"]]
            for f, (hdr, glines) in zip(asked, got_secs):
                full = O.join(at, f)
                # the nearest enclosing history of the file among the histories below the given root
                near = max([r for r in roots if r == "" or full == r or full.startswith(r + "/")] or [at], key=len)
                relf = (full[len(near) + 1:] if near else full) or "."
                exp = []
                for num, name, b in hs[near]["gens"]:
                    m = O.parse_manifest_bytes(b)
                    cd = m["creationdate"]
                    # the tool's lookup: the last record of the generation that carries this path or this previous path
                    recs = [r for r in m["records"] if r["path"] == relf or r.get("prev") == relf]
                    if recs:
                        r = recs[-1]
                        for e in r["entries"]:
                            if r["kind"] == "dir":
                                exp.append((num, cd, f"{e['fmt']}: {e['digest']} (None)"))
                            else:
                                exp.append((num, cd, f"{e['fmt']}: {e['digest']} ({e['action']})"))
                if glines != exp:
                    fails.append({"what": f"info -sf {f!r}{' (asked at ' + repr(at) + ', nearest history ' + repr(near) + ')' if near != at else ''}{' in a call naming ' + str(asked) if len(asked) > 1 else ''} prints {glines}, the manifests hold {exp}", "replay": sc})
    return fails


def run(ctx):
    rnd = random.Random(ctx.seed + 19)
    scs = [add_infos(s, rnd) for s in _scn.standard_pool(ctx, ctx.scale(50, 800), ctx.scale(50, 800), ctx.scale(3, 30))]
    # no-history cases
    scs.append({"profile": "nohist", "root": "root", "tree": {"a.txt": "a", "s/b.txt": "b"}, "ops": [{"op": "info", "at": ""}, {"op": "infosf", "at": "", "file": "a.txt"}, {"op": "create", "at": "s", "h": ["md5"]}, {"op": "info", "at": ""}, {"op": "info", "at": "s"}, {"op": "infosf", "at": "s", "file": "b.txt", "auto_root": True}]})
    # namesakes: a file of a nested history and a file of the root history with the same history-relative path, asked
    # one by one and in one call, with the root and with the nested folder as ROOT
    tree = {"clip.mov": "root clip", "A/clip.mov": "nested clip", "A/only.mov": "only", "A/B/clip.mov": "deep clip", "other.mov": "o"}
    seal = [{"op": "create", "at": "A/B", "h": ["md5"], "now": "2026-03-01 12:00:01"}, {"op": "create", "at": "A", "h": ["sha1"], "now": "2026-03-01 12:00:02"},
            {"op": "create", "at": "", "h": ["xxh64"], "now": "2026-03-01 12:00:03"}, {"op": "write", "path": "A/clip.mov", "data": "ALTERED"}, {"op": "create", "at": "", "h": ["md5"], "now": "2026-03-01 12:00:04"}]
    asks = [{"op": "infosf", "at": "", "file": f} for f in ("A/clip.mov", "clip.mov", "A/B/clip.mov", "A/only.mov")] + [{"op": "infosf", "at": "A", "file": f} for f in ("clip.mov", "B/clip.mov")]
    asks += [{"op": "infosf", "at": "", "file": "A/only.mov", "files": fs_} for fs_ in (["A/only.mov", "clip.mov"], ["clip.mov", "A/clip.mov", "A/B/clip.mov"], ["other.mov", "other.mov", "A/only.mov"])]
    scs.append({"profile": "c19-namesakes", "root": "root", "tree": tree, "ops": seal + asks})
    # a history whose manifests are large (hundreds of records: the reader receives them in several blocks), and the
    # empty folder (a history that records no path at all still has generations)
    big = {"d%02d/f%03d.bin" % (i % 7, i): "content %d" % i for i in range(ctx.scale(260, 900))}
    scs.append({"profile": "c19-big", "impl_only": True, "root": "root", "tree": big,
                "ops": [{"op": "create", "at": "", "h": ["md5", "sha1", "c4"], "now": "2026-03-01 12:00:01"}, {"op": "create", "at": "", "h": ["xxh64"], "now": "2026-03-01 12:00:02"}, {"op": "info", "at": ""}]
                       + [{"op": "infosf", "at": "", "file": "d%02d/f%03d.bin" % (i % 7, i)} for i in range(0, len(big), max(1, len(big) // 40))]})
    scs.append({"profile": "c19-empty", "root": "root", "tree": {"e/": None}, "ops": [{"op": "create", "at": "", "h": ["md5"], "now": "2026-03-01 12:00:01"}, {"op": "info", "at": ""}, {"op": "create", "at": "e", "h": ["md5"], "now": "2026-03-01 12:00:02"}, {"op": "info", "at": "e"}, {"op": "info", "at": ""}]})
    return _scn.run_scn(ctx, scs, monitor, witness_ids=("D18",))


def replay(ctx, path):
    return _scn.replay_generic(ctx, path, monitor)
