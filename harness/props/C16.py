"""C16 — recorded size and timestamps describe the real file in any time zone."""
import math, os, time, random, json, glob, datetime, re, calendar
from zoneinfo import ZoneInfo
from .. import rt, framework as fw, witnesses
from ..model import Driver
from . import _scn

ZONES = ["UTC", "Europe/Berlin", "America/New_York", "Australia/Sydney", "Europe/Dublin", "Pacific/Chatham", "America/St_Johns", "Europe/Moscow", "Asia/Kolkata", "Pacific/Marquesas", "Asia/Kathmandu", "Africa/Casablanca",
         "America/Caracas", "Europe/Istanbul",
         "<+0330>-3:30", "<-0930>9:30", "CET-1CEST,M3.5.0,M10.5.0/3", "EST5EDT,M3.2.0,M11.1.0", "<+1245>-12:45<+1345>,M9.5.0/2:45,M4.1.0/3:45", "UTC-14", "UTC+12"]


IANA = {z for z in ZONES if z == "UTC" or (z[0].isalpha() and "/" in z and "," not in z and not any(ch.isdigit() for ch in z))}


def set_tz(z):
    os.environ["TZ"] = z
    time.tzset()


def offset_at(z, ts):
    """UTC offset (seconds) in force at instant ts in zone z, from an independent source: zoneinfo for IANA names,
    libc's tm_gmtoff (time.localtime) for POSIX rule strings"""
    if z in IANA:
        return int(datetime.datetime.fromtimestamp(ts, ZoneInfo(z)).utcoffset().total_seconds())
    return time.localtime(ts).tm_gmtoff


def transitions(z, lo, hi):
    """(base offset at lo, [(instant, offset)...]) by bisection on the independent offset source"""
    out = []
    step = 6 * 3600
    cur = offset_at(z, lo)
    base = cur
    t = lo
    while t < hi:
        nxt = min(t + step, hi)
        o = offset_at(z, nxt)
        if o != cur:
            a, b = t, nxt
            while b - a > 1:
                m = (a + b) // 2
                if offset_at(z, m) == cur:
                    a = m
                else:
                    b = m
            out.append([b, o])
            cur = o
        t = nxt
    return base, out


def parse_iso(s):
    """independent ISO-8601 parser -> (instant seconds as float, offset seconds, local-fields second count)"""
    dt = datetime.datetime.fromisoformat(s)
    if dt.tzinfo is None:
        raise ValueError("no offset in " + s)
    off = int(dt.utcoffset().total_seconds())
    local = calendar.timegm(dt.replace(tzinfo=None).timetuple())
    return dt.timestamp(), off, local


XS_DATETIME = re.compile(r"^-?\d{4,}-\d{2}-\d{2}T\d{2}:\d{2}:\d{2}(\.\d+)?(Z|[+-]\d{2}:\d{2})?$")


def critical_instants(z, year=2026):
    lo = calendar.timegm((year, 1, 1, 0, 0, 0))
    hi = calendar.timegm((year + 1, 1, 1, 0, 0, 0))
    base, trs = transitions(z, lo, hi)
    pts = [lo + 86400 * 14 + 13 * 3600, lo + 86400 * 200 + 7 * 3600 + 11]
    for T, o in trs:
        for d in (-7200, -3601, -1800, -1, 0, 1, 1799, 1800, 3599, 3600, 3601, 5400, 7200, 90000, -90000):
            pts.append(T + d)
    return sorted(set(pts)), base, trs, lo, hi


def run(ctx):
    from ascmhl import utils

    _scn.build_and_audit(ctx)
    rnd = random.Random(ctx.seed * 17 + 16)
    fails, corr, evals, samples = [], [], 0, []
    dist = {"zones": {}, "fold_instants": 0, "gap_neighbourhood": 0}
    old_tz = os.environ.get("TZ")
    drv = None
    try:
        drv = Driver()
    except Exception as e:
        ctx.broken.append(f"model driver does not start: {e}")
    zones = ZONES if ctx.thorough else ZONES[:8] + rnd.sample(ZONES[8:], 4)
    try:
        for z in zones:
            set_tz(z)
            # zones change their rules: file times from other years are judged by the rules in force THEN (negative
            # DST in Europe/Dublin, Moscow's +04 years, Caracas' -04:30 years, Istanbul before 2016)
            years = [2026] + ([2012, 2015, 1969, 1968] if z in IANA and z != "UTC" else []) + ([2009, 2011, 2014, 2016, 1999, 1985] if ctx.thorough and z in IANA and z != "UTC" else [])
            work = []
            for y in years:
                pts, base, trs, lo, hi = critical_instants(z, y)
                extra = [rnd.randint(lo, hi) for _ in range(ctx.scale(10, 200) if y == 2026 else 4)]
                work.append((pts + extra, base, trs))
            pts, base, trs, lo, hi = critical_instants(z)
            dist["zones"][z] = sum(len(w[0]) for w in work)
            for ts, base, trs in [(ts, b_, t_) for (pp, b_, t_) in work for ts in pp]:
                evals += 1
                naive = datetime.datetime.fromtimestamp(ts)
                if naive.fold:
                    dist["fold_instants"] += 1
                s = utils.datetime_isostring(naive)
                exp_off = offset_at(z, ts)
                try:
                    inst, off, local = parse_iso(s)
                except Exception as e:
                    fails.append({"what": f"TZ={z}: {s!r} is not a parsable ISO-8601 value ({e})", "replay": {"tz": z, "ts": ts}})
                    continue
                if int(inst) != ts:
                    fails.append({"what": f"TZ={z}: a file time at instant {ts} ({datetime.datetime.utcfromtimestamp(ts).isoformat()}Z) is written as {s}, which denotes instant {int(inst)} ({int(inst) - ts:+d} s)", "replay": {"tz": z, "ts": ts, "written": s}})
                elif off != exp_off:
                    fails.append({"what": f"TZ={z}: instant {ts} written as {s}: offset {off} but the offset in force at that instant is {exp_off}", "replay": {"tz": z, "ts": ts, "written": s}})
                if exp_off % 60 == 0 and not XS_DATETIME.match(s):
                    fails.append({"what": f"TZ={z}: {s!r} is not in the xs:dateTime lexical space", "replay": {"tz": z, "ts": ts}})
                # the model on the same zone table
                if drv is not None:
                    m = drv.send({"op": "iso", "base": base, "transitions": trs, "t": ts})
                    if (m["iso_local"], m["iso_off"]) != (local, off) or m["denote"] != int(inst):
                        corr.append({"what": f"TZ={z} instant {ts}: implementation writes local {local} offset {off}, model {m['iso_local']} {m['iso_off']} (fold {m['fold']})", "replay": {"tz": z, "ts": ts, "transitions": trs, "base": base}})
                    if exp_off % 60 == 0 and not s.endswith(m["offtext"]):
                        corr.append({"what": f"offset text: implementation {s[-6:]} model {m['offtext']}", "replay": {"tz": z, "ts": ts}})
            if len(samples) < 3 and trs:
                samples.append({"tz": z, "transitions_2026": trs, "instants_tested": pts[:6]})
        # whole create runs (no frozen clock: file times go through the real libc path)
        for z in zones[: ctx.scale(6, len(zones))]:
            set_tz(z)
            pts, base, trs, lo, hi = critical_instants(z)
            with rt.tempdir("c16_") as d:
                root = os.path.join(d, "root")
                os.makedirs(root)
                sizes = {"empty.bin": 0, "one.bin": 1, "k.bin": 1000, "big.bin": 70000, "old69.bin": 69, "old68.bin": 68, "epoch.bin": 70, "oldfrac.bin": 71, "frac.bin": 72, "huge.bin": 1024 * 1024 + 1, "two.bin": 2 * 1024 * 1024}
                mt = {}
                # file times: prefer instants in the second pass of a repeated hour and right after a gap
                folds = [q for q in pts if datetime.datetime.fromtimestamp(q).fold]
                pref = folds[:2] + [T + 1 for T, _ in trs][:2]
                for i, (n, sz) in enumerate(sizes.items()):
                    p = os.path.join(root, n)
                    open(p, "wb").write(b"x" * sz)
                    ts = pref[i] if i < len(pref) else pts[(i * 7 + len(z)) % len(pts)]
                    if n == "old69.bin":
                        ts = calendar.timegm((1969, 7, 1, 12, 0, 7))  # before the epoch: a negative time stamp
                    if n == "old68.bin":
                        ts = calendar.timegm((1968, 1, 15, 3, 30, 0))
                    if n == "epoch.bin":
                        ts = 0
                    if n == "oldfrac.bin":
                        ts = calendar.timegm((1969, 7, 5, 0, 0, 0)) - 0.5  # a fraction of a second, before the epoch
                    if n == "frac.bin":
                        ts = ts + 0.75
                    os.utime(p, (ts, ts))
                    # (the second the file was modified IN: the record carries whole seconds)
                    mt[n] = math.floor(ts)
                # a file reached through a symbolic link is hashed through the link: its record carries the size and
                # time of the content that was hashed
                try:
                    os.symlink("big.bin", os.path.join(root, "link.bin"))
                    sizes["link.bin"] = sizes["big.bin"]
                    mt["link.bin"] = mt["big.bin"]
                except OSError:
                    pass
                t0 = time.time()
                x = rt.run("create", [root, "-h", "md5"])
                t1 = time.time()
                evals += 1
                ms = sorted(glob.glob(os.path.join(root, "ascmhl", "*.mhl")))
                if x.exit != 0 or not ms:
                    fails.append({"what": f"TZ={z}: create exit {x.exit} {x.exc}", "replay": {"tz": z}})
                    continue
                m = rt.read_manifest(ms[-1])
                stamp = re.search(r"_(\d{4}-\d{2}-\d{2}_\d{6})Z\.mhl$", ms[-1])
                st = calendar.timegm(time.strptime(stamp.group(1), "%Y-%m-%d_%H%M%S")) if stamp else None
                if st is None or not (int(t0) - 1 <= st <= int(t1) + 1):
                    fails.append({"what": f"TZ={z}: manifest name {os.path.basename(ms[-1])} does not carry the UTC time of the run ({int(t0)}..{int(t1)})", "replay": {"tz": z}})
                cd = m["creatorinfo"].get("creationdate")
                try:
                    inst, off, _ = parse_iso(cd)
                    if not (t0 - 2 <= inst <= t1 + 2) or off != offset_at(z, int(inst)):
                        fails.append({"what": f"TZ={z}: creationdate {cd} does not denote the time of the run ({t0:.0f}) with the offset in force ({offset_at(z, int(t0))})", "replay": {"tz": z}})
                except Exception as e:
                    fails.append({"what": f"TZ={z}: creationdate {cd!r}: {e}", "replay": {"tz": z}})
                for r in m["records"]:
                    if r["kind"] != "file":
                        continue
                    n = r["path"]
                    if r["size"] != str(sizes[n]):
                        fails.append({"what": f"size attribute of {n} ({sizes[n]} bytes) is {r['size']!r}", "replay": {"tz": z, "file": n}})
                    try:
                        inst, off, _ = parse_iso(r["lastmod"])
                        if int(inst) != mt[n] or off != offset_at(z, mt[n]):
                            fails.append({"what": f"TZ={z}: lastmodificationdate of {n} is {r['lastmod']} but the file's mtime is instant {mt[n]} with offset {offset_at(z, mt[n])}", "replay": {"tz": z, "file": n, "mtime": mt[n]}})
                    except Exception as e:
                        fails.append({"what": f"TZ={z}: lastmodificationdate {r['lastmod']!r}: {e}", "replay": {"tz": z}})
                    for e_ in r["entries"]:
                        inst, off, _ = parse_iso(e_["hashdate"])
                        if not (t0 - 2 <= inst <= t1 + 2) or off != offset_at(z, int(inst)):
                            fails.append({"what": f"TZ={z}: hashdate {e_['hashdate']} of {n} does not denote the time of the run", "replay": {"tz": z}})
                # the date in the manifest's name is the calendar date (UTC), also in the days around New Year that belong to
                # a week of the neighbouring year
                for now in ("2021-01-01 12:00:00", "2024-12-30 08:00:00", "2027-01-02 23:59:59", "2026-12-31 23:59:59"):
                    with rt.tempdir("c16n_") as d2:
                        r2 = os.path.join(d2, "reel")
                        rt.mk(r2, {"a.txt": "a"})
                        x2 = rt.run("create", [r2, "-h", "md5"], now)
                        evals += 1
                        nm = [os.path.basename(q) for q in glob.glob(os.path.join(r2, "ascmhl", "*.mhl"))]
                        want = "0001_reel_" + now.replace(" ", "_").replace(":", "") + "Z.mhl"
                        if x2.exit != 0 or nm != [want]:
                            fails.append({"what": f"TZ={z}: create at {now} UTC names its manifest {nm}, expected {want}", "replay": {"tz": z, "now": now}})
                # the history is flattened on a machine in ANOTHER zone: the dates carried over denote the same instants
                z2 = zones[(zones.index(z) + 3) % len(zones)]
                set_tz(z2)
                dest = os.path.join(d, "dest")
                os.makedirs(dest)
                x = rt.run("flatten", [root, dest])
                evals += 1
                pls = glob.glob(os.path.join(dest, "*", "*.mhl")) + glob.glob(os.path.join(dest, "*.mhl"))
                if x.exit == 0 and pls:
                    pm = rt.read_manifest(pls[0])
                    src = {(r["path"], e_["fmt"]): e_["hashdate"] for r in m["records"] if r["kind"] == "file" for e_ in r["entries"]}
                    for r in pm["records"]:
                        for e_ in r["entries"]:
                            a = src.get((r["path"], e_["fmt"]))
                            try:
                                if a is not None and e_.get("hashdate") and abs(parse_iso(e_["hashdate"])[0] - parse_iso(a)[0]) > 1e-3:
                                    fails.append({"what": f"history written with TZ={z}, flattened with TZ={z2}: hashdate of {r['path']} ({e_['fmt']}) is {a} in the history and {e_['hashdate']} in the packing list: not the same instant", "replay": {"tz": z, "tz_flatten": z2}})
                            except Exception as ex:
                                fails.append({"what": f"packing list hashdate {e_.get('hashdate')!r}: {ex}", "replay": {"tz": z, "tz_flatten": z2}})
                elif x.exit != 0:
                    fails.append({"what": f"flatten with TZ={z2} of a history written with TZ={z}: exit {x.exit} {x.exc}", "replay": {"tz": z, "tz_flatten": z2}})
                set_tz(z)
    finally:
        if old_tz is None:
            os.environ.pop("TZ", None)
        else:
            os.environ["TZ"] = old_tz
        time.tzset()
        if drv:
            drv.close()
    # one run that crosses a daylight-saving switch (simulated process clock in a fresh interpreter, real zone rules)
    try:
        import subprocess
        for z in ("Europe/Berlin", "America/New_York", "Australia/Sydney"):
            set_tz(z)
            _pts, _base, trs, _lo, _hi = critical_instants(z)
            for T, _o in trs[:2]:
                with rt.tempdir("c16s_") as d:
                    root = os.path.join(d, "root")
                    rt.mk(root, {"f%02d.bin" % i: "content %d" % i for i in range(12)})
                    pr = subprocess.run(["/venv/bin/python", os.path.join(rt.VERIF, "harness", "simclock_case.py"), rt.REPO, root, str(T - 5400), "600"], capture_output=True, text=True, timeout=120, env=dict(os.environ, TZ=z))
                    evals += 1
                    line = [l for l in pr.stdout.split("\n") if l.startswith("{")]
                    if not line:
                        ctx.notes.append(f"simulated-clock case produced no result: {pr.stderr[-200:]!r}")
                        continue
                    o = json.loads(line[-1])
                    shown = {round(x, 3) for x in o["shown"]}
                    if o["exit"] != 0 or o["exc"]:
                        fails.append({"what": f"TZ={z}: create under a process clock that crosses the switch at {T}: exit {o['exit']} {o['exc']}", "replay": {"tz": z, "switch": T}})
                    for ds in o["dates"]:
                        try:
                            inst, off, _ = parse_iso(ds)
                        except Exception as e:
                            fails.append({"what": f"TZ={z}: date {ds!r} written by a run that crosses the switch at {T}: {e}", "replay": {"tz": z, "switch": T}})
                            continue
                        if round(inst, 3) not in shown and int(inst) not in {int(x) for x in shown}:
                            fails.append({"what": f"TZ={z}: a run whose clock crosses the switch at instant {T} writes the date {ds}, which denotes instant {inst:.0f}: the clock never showed that instant during the run (nearest shown: {min(shown, key=lambda x: abs(x - inst)):.0f})", "replay": {"tz": z, "switch": T, "date": ds}})
                        elif off != offset_at(z, int(inst)):
                            fails.append({"what": f"TZ={z}: date {ds} written across the switch at {T} carries offset {off}, in force at that instant: {offset_at(z, int(inst))}", "replay": {"tz": z, "switch": T, "date": ds}})
    except Exception as e:
        ctx.notes.append(f"simulated-clock case not run: {e!r}")
    finally:
        if old_tz is None:
            os.environ.pop("TZ", None)
        else:
            os.environ["TZ"] = old_tz
        time.tzset()
    for w in ("D7", "D3"):
        for msg in witnesses.ALL[w]():
            fails.append({"what": f"regression of fixed defect {w}: {msg}", "replay": {"witness": w}})
    cov = {"evaluations": evals, "distinct_nontrivial": sum(dist["zones"].values()),
           "rule": "one evaluation = one (zone, instant) pair formatted by datetime_isostring through datetime.fromtimestamp (real libc path, TZ switched with tzset) and parsed back by an independent ISO parser, plus whole create runs; instants = every DST transition of 2026 in the zone with offsets -2h..+2h around it (both passes of a repeated hour, both sides of a gap) plus random ones; distinct = (zone, instant) pairs",
           "samples": samples, "input_distribution": dist, "monitor": {"cases": evals, "failing": len(fails)}, "exhaustive": False}
    return fw.finish(ctx, cov, fails, corr, assumptions=["zone data: zoneinfo (IANA names) / libc tm_gmtoff (POSIX TZ strings) as independent offset source", "datetime.fromisoformat as independent parser"])


def replay(ctx, path):
    print(open(path).read()[:3000])
    return run(ctx)
