"""C11 — every file the tool writes is valid against the published schemas."""
import os, random, json, hashlib, subprocess, io, copy
import xml.etree.ElementTree as ET
from lxml import etree
from .. import rt, framework as fw, witnesses, gen, pool
from ..model import Driver
from . import _scn, C10

NSM = "urn:ASC:MHL:v2.0"
NSD = "urn:ASC:MHL:DIRECTORY:v2.0"


def schemas():
    xd = os.path.join(rt.REPO, "xsd")
    return etree.XMLSchema(etree.parse(os.path.join(xd, "ASCMHL.xsd"))), etree.XMLSchema(etree.parse(os.path.join(xd, "ASCMHLDirectory__combined.xsd")))


def tree_json(b):
    def conv(e):
        kids = [conv(c) for c in e]
        text = e.text
        if kids and text is not None and text.strip(" \n\t\r") == "":
            text = None
        if text == "":
            text = None
        if any((c.tail or "").strip(" \n\t\r") for c in e):
            text = (text or "") + "".join(c.tail or "" for c in e)
        return {"tag": rt._lt(e), "attrs": {k.split("}")[-1]: v for k, v in e.attrib.items()}, "text": text, "children": kids}

    return conv(ET.fromstring(b))


def lxml_valid(schema, b):
    try:
        doc = etree.fromstring(b)
    except etree.XMLSyntaxError as e:
        return False, "not well-formed: " + str(e)
    ok = schema.validate(doc)
    return ok, "" if ok else str(schema.error_log.last_error).split(":ERROR:")[-1][:200]


def mutate(rnd, b):
    """a structurally mutated copy of the document (may or may not stay valid)"""
    root = ET.fromstring(b)
    ns = root.tag.split("}")[0] + "}"
    ET.register_namespace("", ns[1:-1])
    nodes = [e for e in root.iter()]
    parents = {c: p for p in root.iter() for c in p}
    kind = rnd.choice(["drop", "dup", "swap", "attr", "rename", "text", "addattr", "emptyhashes"])
    e = rnd.choice(nodes)
    if kind == "drop" and e in parents:
        parents[e].remove(e)
    elif kind == "dup" and e in parents:
        p = parents[e]
        p.insert(list(p).index(e), copy.deepcopy(e))
    elif kind == "swap" and e in parents and len(list(parents[e])) > 1:
        p = parents[e]
        kids = list(p)
        i = kids.index(e)
        j = (i + 1) % len(kids)
        kids[i], kids[j] = kids[j], kids[i]
        for k in list(p):
            p.remove(k)
        for k in kids:
            p.append(k)
    elif kind == "attr" and e.attrib:
        k = rnd.choice(sorted(e.attrib))
        e.attrib[k] = rnd.choice(["new", "x1", "yesterday", "", "2026-13-01T00:00:00Z", "12", "original", "2026-03-01T12:00:00+00:00", "a@b", "a@b.c"])
    elif kind == "rename":
        e.tag = ns + rnd.choice(["md5", "c4", "xxh32", "hash", "path", "bogus", "content", "metadata"])
    elif kind == "text":
        e.text = rnd.choice(["", "in-place", "transfer", "somewhere", "2026-03-01T12:00:00", "not a date"])
    elif kind == "addattr":
        e.attrib[rnd.choice(["size", "action", "version", "bogus", "sequencenr", "hashdate"])] = rnd.choice(["1", "x", "verified", "2.0", "2026-03-01T12:00:00Z"])
    elif kind == "emptyhashes":
        for h in root.iter(ns + "hashes"):
            for k in list(h):
                h.remove(k)
    return ET.tostring(root, encoding="utf-8"), kind


def decorate(sc, rnd):
    """creator options and repeated -h on the create operations"""
    for o in sc["ops"]:
        if o["op"] == "create":
            if rnd.random() < 0.5:
                o["author_name"] = rnd.choice(C10.STRINGS)
            if rnd.random() < 0.4:
                o["author_email"] = rnd.choice(["a@b.c", "first.last@example.org", "é@x.yz", "o'k@d.ef"])
            if rnd.random() < 0.3:
                o["author_phone"] = rnd.choice(["+49 89 1234", "n/a", "()"])
            if rnd.random() < 0.3:
                o["author_role"] = rnd.choice(C10.STRINGS)
            if rnd.random() < 0.3:
                o["location"] = rnd.choice(C10.STRINGS)
            if rnd.random() < 0.3:
                o["comment"] = rnd.choice(C10.STRINGS)
            if rnd.random() < 0.2:
                o["h"] = list(o.get("h", [])) + [rnd.choice(o.get("h") or ["md5"])]
    if rnd.random() < 0.4:
        fl = {"op": "flatten", "at": ""}
        if rnd.random() < 0.7:
            fl.update({"author_name": rnd.choice(C10.STRINGS), "author_email": rnd.choice(["a@b.c", "first.last@example.org"]), "author_phone": rnd.choice(["+49 89 1234", "n/a"]), "author_role": rnd.choice(C10.STRINGS)})
        if rnd.random() < 0.5:
            fl["location"] = rnd.choice(C10.STRINGS)
        if rnd.random() < 0.5:
            fl["comment"] = rnd.choice(C10.STRINGS)
        sc["ops"].append(fl)
    return sc


def run(ctx):
    _scn.build_and_audit(ctx)
    rnd = random.Random(ctx.seed * 307 + 11)
    ms, ds = schemas()
    files = {}  # sha -> (kind, bytes, origin)
    fails, corr = [], []

    def collect(sc, res):
        for st in res["steps"]:
            io_ = st["impl"]
            if io_ is None:
                continue
            for p, b in io_["asc_after"].items():
                if p in io_["asc_before"] and io_["asc_before"][p] == b:
                    continue
                kind = "manifest" if p.endswith(".mhl") else ("chain" if p.endswith(".xml") else None)
                if kind:
                    files.setdefault(hashlib.sha1(b).hexdigest(), (kind, b, {"scenario": sc, "file": p, "op": st["op"]}))
            for p, b in (io_.get("flatten_dest") or {}).items():
                kind = "manifest" if p.endswith(".mhl") else ("chain" if p.endswith(".xml") else None)
                if kind:
                    files.setdefault(hashlib.sha1(b).hexdigest(), (kind, b, {"scenario": sc, "file": "flatten:" + p, "op": st["op"]}))
        return []

    scs = [decorate(s, rnd) for s in _scn.standard_pool(ctx, ctx.scale(60, 900), ctx.scale(35, 500))]
    # empty folders, parents that only receive references, -sf with repeated names, failing runs
    scs.append({"root": "root", "tree": {"e/": None}, "ops": [{"op": "create", "at": "", "h": ["md5"]}, {"op": "create", "at": "e", "h": ["c4"]}]})
    scs.append({"root": "root", "tree": {"c/f.txt": "x", "t.txt": "t"}, "ops": [{"op": "create", "at": "c", "h": ["md5"]}, {"op": "create", "at": "", "h": ["md5"], "sf": ["c/f.txt"]}, {"op": "create", "at": "", "h": ["c4", "md5"], "sf": ["t.txt", "t.txt", "c", "c/f.txt"]}]})
    # every value the command line accepts for -h (read from the click declaration of the current source, not from a
    # list of the harness): sealed alone, in a nested tree, flattened
    try:
        import ascmhl.commands as _C
        accepted = sorted({c for p_ in _C.create.params if getattr(p_.type, "choices", None) and "-h" in p_.opts for c in p_.type.choices})
    except Exception:
        accepted = []
    for f_ in accepted:
        scs.append({"root": "root", "impl_only": True, "tree": {"a.txt": "1", "s/c.txt": "3", "e/": None},
                    "ops": [{"op": "create", "at": "s", "h": [f_], "now": "2026-03-01 12:00:00"}, {"op": "create", "at": "", "h": [f_], "now": "2026-03-01 12:00:01"},
                            {"op": "create", "at": "", "h": [f_], "now": "2026-03-01 12:00:02"}, {"op": "flatten", "at": ""}]})
    # two (three) flatten runs into the same destination folder on the same day: the collection file lists them all
    scs.append({"root": "root", "impl_only": True, "tree": {"a.txt": "1", "s/c.txt": "3"},
                "ops": [{"op": "create", "at": "", "h": ["md5"], "now": "2026-03-01 12:00:00"}, {"op": "flatten", "at": "", "now": "2026-03-01 12:00:01"},
                        {"op": "create", "at": "", "h": ["sha1"], "now": "2026-03-01 12:00:02"}, {"op": "flatten", "at": "", "same_dest": True, "now": "2026-03-01 12:00:03"},
                        {"op": "flatten", "at": "", "same_dest": True, "now": "2026-03-01 12:00:04"}]})
    # a file recorded by several generations, then renamed (create -dr), then flattened - in the root and in a nested history
    for k in (1, 2, 3):
        ops = [{"op": "create", "at": "s", "h": ["md5"], "now": "2026-03-01 12:00:00"}]
        ops += [{"op": "create", "at": "", "h": [["md5"], ["md5", "sha1"], ["md5"]][g], "now": "2026-03-01 12:00:%02d" % (g + 1)} for g in range(k)]
        ops += [{"op": "mv", "src": "a.txt", "dst": "b.txt"}, {"op": "mv", "src": "s/c.txt", "dst": "s/d.txt"}, {"op": "create", "at": "", "h": ["md5"], "dr": True, "now": "2026-03-01 12:01:00"},
                {"op": "create", "at": "", "h": ["md5"], "now": "2026-03-01 12:01:01"}, {"op": "flatten", "at": ""}, {"op": "flatten", "at": "s"}]
        scs.append({"root": "root", "impl_only": True, "tree": {"a.txt": "1", "keep.txt": "2", "s/c.txt": "3"}, "ops": ops})
    scs.append({"root": "root", "tree": {"a.txt": "1", "b.txt": "2"}, "ops": [{"op": "create", "at": "", "h": ["md5", "c4", "sha1", "xxh64", "xxh3", "xxh128"]}, {"op": "write", "path": "a.txt", "data": "changed"}, {"op": "rm", "path": "b.txt"}, {"op": "create", "at": "", "h": ["c4", "md5"]}, {"op": "flatten", "at": ""}]})
    # rename records (previousPath) in every position the rename scenarios of C17 produce
    from . import C17
    scs += [C17.build(ctx.seed * 7 + k) for k in range(ctx.scale(12, 150))]
    # runs in which the serialisation of the manifest itself fails half way (a name or creator field that XML cannot
    # carry): whatever ends up as *.mhl / *.xml in an ascmhl folder must still be valid
    scs.append({"root": "root", "tree": {"a.txt": "1", "m/bad\x01name.txt": "2", "z.txt": "3"}, "ops": [{"op": "create", "at": "", "h": ["md5"]}, {"op": "create", "at": "", "h": ["c4"], "sf": ["a.txt"]}]})
    scs.append({"root": "root", "tree": {"a.txt": "1", "z.txt": "3"}, "ops": [{"op": "create", "at": "", "h": ["md5"]}, {"op": "create", "at": "", "h": ["md5"], "comment": "bell \x07 in a comment"}, {"op": "create", "at": "", "h": ["sha1"], "location": "vt \x0b"}, {"op": "create", "at": "", "h": ["sha1"]}]})
    r = pool.run_pool(scs, monitor=collect, with_model=False)
    # a host without a name (platform.node() gives an empty string): the element the schema requires is still written
    try:
        import platform
        from unittest import mock
        with mock.patch.object(platform, "node", return_value=""):
            pool.run_pool([{"root": "root", "tree": {"a.txt": "1", "s/b.txt": "2"}, "ops": [{"op": "create", "at": "s", "h": ["md5"]}, {"op": "create", "at": "", "h": ["md5"], "comment": "no host name"}, {"op": "flatten", "at": ""}]}], monitor=collect, with_model=False)
    except Exception as e:
        ctx.notes.append(f"empty host name case not run: {e!r}")
    evals = 0
    invalid = 0
    for sha, (kind, b, origin) in files.items():
        ok, err = lxml_valid(ms if kind == "manifest" else ds, b)
        evals += 1
        if not ok:
            invalid += 1
            fails.append({"what": f"{origin['file']} written by {origin['op']['op']} {json.dumps({k: v for k, v in origin['op'].items() if k not in ('op', 'now')}, ensure_ascii=False)} is not valid against the {'manifest' if kind == 'manifest' else 'directory'} schema: {err}", "replay": origin["scenario"]})
    # JDK validator on the same files
    jdk_checked = 0
    with rt.tempdir("c11_") as d:
        paths = {}
        for sha, (kind, b, origin) in files.items():
            p = os.path.join(d, sha + (".mhl" if kind == "manifest" else ".xml"))
            open(p, "wb").write(b)
            paths[p] = (sha, kind, origin)
        for kind, xsd in (("manifest", "ASCMHL.xsd"), ("chain", "ASCMHLDirectory__combined.xsd")):
            lst = [p for p, v in paths.items() if v[1] == kind]
            if not lst:
                continue
            try:
                pr = subprocess.run(["java", os.path.join(rt.VERIF, "tools", "XsdValidate.java"), os.path.join(rt.REPO, "xsd", xsd), os.path.join(rt.REPO, "xsd")], input="\n".join(lst) + "\n", capture_output=True, text=True, timeout=600)
                for line in pr.stdout.split("\n"):
                    if line.startswith("INVALID "):
                        p = line[8:].split(" :: ")[0]
                        jdk_checked += 1
                        o = paths[p][2]
                        fails.append({"what": f"{o['file']} written by {o['op']['op']} is rejected by the JDK schema validator: {line.split(' :: ')[-1][:200]}", "replay": o["scenario"]})
                    elif line.startswith("OK "):
                        jdk_checked += 1
            except Exception as e:
                ctx.notes.append(f"JDK validator not run: {e}")
    # the Lean validator against lxml, on the written files and on mutated variants
    drv = None
    try:
        drv = Driver()
    except Exception as e:
        ctx.broken.append(f"model driver does not start: {e}")
    agree = disagree = mutated_invalid = 0
    kinds = {}
    if drv:
        items = list(files.values())
        rnd.shuffle(items)
        for kind, b, origin in items[: ctx.scale(120, 1500)]:
            schema = ms if kind == "manifest" else ds
            variants = [(b, "original")] + [mutate(rnd, b) for _ in range(ctx.scale(4, 12))]
            for vb, mk in variants:
                ok, err = lxml_valid(schema, vb)
                try:
                    tj = tree_json(vb)
                except ET.ParseError:
                    continue
                lv = drv.send({"op": "xsd", "schema": "manifest" if kind == "manifest" else "directory", "tree": tj})["valid"]
                kinds[mk] = kinds.get(mk, 0) + 1
                if not ok:
                    mutated_invalid += 1
                if lv == ok:
                    agree += 1
                else:
                    disagree += 1
                    corr.append({"what": f"schema validator of the model says {lv}, lxml says {ok} ({err}) for a {'mutated (' + mk + ') ' if mk != 'original' else ''}{kind}", "replay": {"xml": vb.decode('utf-8', 'replace')[:4000]}})
        # model's own writer output is valid for random well-formed generations
        for i in range(ctx.scale(80, 1500)):
            spec = C10.strip_private(C10.gen_spec(rnd))
            # (C11 speaks about syntactically valid e-mail addresses; C10's generator also writes other text there)
            import re as _re
            for a_ in spec["creator"]["authors"]:
                if a_.get("email") is not None and not _re.fullmatch(r"[^@]+@[^\.]+\..+", a_["email"]):
                    a_["email"] = "valid@example.org"
            spec["creator"]["toolVersion"] = spec["creator"]["toolVersion"] or "1"
            mo = drv.send({"op": "xml", "gen": spec})
            evals += 1
            if not mo["valid"]:
                corr.append({"what": "model: toXml of a well-formed generation is rejected by the model's validator", "replay": {"spec": spec}})
        drv.close()
    # a history that holds a schema-valid manifest written by another tool - without the optional size attribute, without
    # last-modification dates: what flatten and a later create write from it is valid
    try:
        import re as _re, glob as _glob
        with rt.tempdir("c11f_") as d_:
            r_ = os.path.join(d_, "root")
            rt.mk(r_, {"a.txt": "alpha", "s/b.txt": "beta"})
            rt.run("create", [r_, "-h", "md5"], "2026-03-01 12:00:00")
            mp_ = _glob.glob(os.path.join(r_, "ascmhl", "*.mhl"))[0]
            b_ = open(mp_, "rb").read()
            b2_ = _re.sub(rb' size="\d+"', b"", b_)
            b2_ = _re.sub(rb' lastmodificationdate="[^"]*"', b"", b2_)
            ok_, err_ = lxml_valid(ms, b2_)
            if ok_ and b2_ != b_:
                open(mp_, "wb").write(b2_)
                cp_ = os.path.join(r_, "ascmhl", "ascmhl_chain.xml")
                c_ = open(cp_, "rb").read()
                open(cp_, "wb").write(c_.replace(rt.c4_of_bytes(b_).encode(), rt.c4_of_bytes(b2_).encode()))
                dest_ = os.path.join(d_, "dest")
                os.makedirs(dest_)
                x1 = rt.run("flatten", [r_, dest_], "2026-03-01 12:00:05")
                x2 = rt.run("create", [r_, "-h", "sha1"], "2026-03-01 12:00:06")
                evals += 2
                for fp_ in _glob.glob(os.path.join(dest_, "*", "*.mhl")) + sorted(_glob.glob(os.path.join(r_, "ascmhl", "0002_*.mhl"))):
                    ok2_, err2_ = lxml_valid(ms, open(fp_, "rb").read())
                    if not ok2_:
                        fails.append({"what": f"{os.path.basename(fp_)} written from a history whose first manifest has no size attributes (a valid manifest of another tool) is not valid against the manifest schema: {err2_}", "replay": {"case": "foreign manifest without size"}})
                if x1.exit != 0 or x2.exit != 0:
                    fails.append({"what": f"flatten / create on a history whose first manifest has no size attributes exit {x1.exit} / {x2.exit}", "replay": {"case": "foreign manifest without size"}})
    except Exception as e:
        corr.append({"what": f"foreign-manifest case stopped: {e!r}", "replay": {"case": "foreign manifest without size"}})
    # runs that end with an error half way through their writes (disk full, Ctrl-C): every manifest and chain file that
    # is then present under its final name is still a valid document
    try:
        import errno, shutil
        from .. import crash, scenario

        def examine(pre, dst, post, label):
            probs = []
            for dp, _, fns in os.walk(dst):
                if os.path.basename(dp) != "ascmhl":
                    continue
                for fn in fns:
                    kind = "manifest" if fn.endswith(".mhl") else ("chain" if fn.endswith(".xml") else None)
                    if not kind:
                        continue
                    ok, err = lxml_valid(ms if kind == "manifest" else ds, open(os.path.join(dp, fn), "rb").read())
                    if not ok:
                        probs.append(f"{label}: {os.path.relpath(os.path.join(dp, fn), dst)} is not a valid {kind} document: {err}")
            return probs

        for exc in (OSError(errno.ENOSPC, "No space left on device (injected)"), KeyboardInterrupt):
            base = rt.mktemp("c11i_")
            try:
                impl = scenario.Impl({"root": "root", "tree": {"a.txt": "alpha", "s/b.txt": "beta", "s/t/c.txt": "gamma"}}, base)
                for k, d in enumerate(["s/t", "s", "", ""]):
                    impl.run({"op": "create", "at": d, "h": ["md5"], "now": "2026-03-01 12:00:%02d" % (k + 1)})

                def make_run(copy_root):
                    im = scenario.Impl.__new__(scenario.Impl)
                    im.sc, im.base, im.root = {"root": "root", "tree": {}}, os.path.dirname(copy_root), copy_root
                    im.iifile, im.flat_n = os.path.join(os.path.dirname(copy_root), "_ii.txt"), 0
                    return lambda: im.run({"op": "create", "at": "", "h": ["sha1", "c4"], "now": "2026-03-01 12:30:00"})

                ri = crash.enumerate_interrupt_states(impl.root, make_run, examine=examine, exc=exc)
                evals += ri["states"]
                for p in ri["unrecoverable"]:
                    fails.append({"what": p, "replay": {"case": "interrupted create", "exception": repr(exc)}})
            finally:
                shutil.rmtree(base, ignore_errors=True)
    except Exception as e:
        ctx.notes.append(f"interrupted-run validation not run: {e!r}")
    for w in ("D4a", "D4b"):
        for msg in witnesses.ALL[w]():
            fails.append({"what": f"regression of fixed defect {w}: {msg}", "replay": {"witness": w}})
    cov = {"evaluations": evals, "distinct_nontrivial": len(files),
           "rule": "one evaluation = one distinct file (manifest, chain or collection file, by content hash) written by create / flatten in the scenario pool (all option combinations: repeated -h, -n, -sf incl. repeated names, -dr, -i/-ii, creator options, nested parents that receive only references, empty folders, failing runs), validated with lxml.etree.XMLSchema AND the JDK validator; plus the model's validator vs lxml on these files and on structurally mutated variants, plus the model's writer on random well-formed generations",
           "samples": [{"file": v[2]["file"], "op": v[2]["op"]} for v in list(files.values())[:3]],
           "input_distribution": {"scenarios": r["n"], "files": len(files), "manifests": sum(1 for v in files.values() if v[0] == "manifest"), "chains": sum(1 for v in files.values() if v[0] == "chain"), "invalid": invalid, "jdk_checked": jdk_checked,
                                  "validator_agreements": agree, "validator_disagreements": disagree, "mutated_documents_invalid": mutated_invalid, "mutation_kinds": kinds, "exits": r["exits"]},
           "monitor": {"cases": evals, "failing": len(fails)}, "exhaustive": False}
    return fw.finish(ctx, cov, fails, corr, assumptions=["creator e-mail options are syntactically valid (the property's domain)", "namespaces are not modelled in the Lean validator (lxml and the JDK check them on the real files)"])


def replay(ctx, path):
    print(open(path).read()[:3000])
    return run(ctx)
