"""C17 — renamed files keep their identity when rename detection is on."""
import random, json
from . import _scn
from .. import gen, oracles as O, monitors as M


def build(seed):
    rnd = random.Random(seed)
    # pairwise distinct contents
    names = rnd.sample(["a.txt", "b.txt", "c.bin", "d e.txt", "ü.txt", "one.mov", "two.mov", "x&y.txt"], rnd.randint(3, 6))
    dirs = rnd.sample(["s", "t", "s/u", "A"], rnd.randint(1, 3))
    for d in list(dirs):
        if "/" in d and d.split("/")[0] not in dirs:
            dirs.append(d.split("/")[0])
    files = {}
    for i, n in enumerate(names):
        d = rnd.choice([""] + dirs)
        files[(d + "/" if d else "") + n] = f"unique content #{i} of {n}"
    if rnd.random() < 0.5:
        # exactly one empty file: its content is distinct from all others as well
        files[rnd.choice(["", dirs[0] + "/"]) + "empty.dat"] = ""
    tree = {d + "/": None for d in dirs}
    tree.update(files)
    fm1 = gen.fmt_subset(rnd, (1, 2))
    ops = [{"op": "create", "at": "", "h": fm1, "now": "2026-03-01 12:00:00"}]
    if rnd.random() < 0.3:
        ops.append({"op": "create", "at": "", "h": gen.fmt_subset(rnd, (1, 2)), "now": "2026-03-01 12:00:01"})
    if rnd.random() < 0.35:
        # the generation before the renames covers only part of the tree
        ops.append({"op": "create", "at": "", "h": gen.fmt_subset(rnd, (1, 2)), "sf": [rnd.choice(sorted(files))], "now": "2026-03-01 12:00:01"})
    cur = dict(files)
    steps = rnd.choice([1, 1, 2, 3])
    meta = {"steps": []}
    use_dr = rnd.random() < 0.8
    t = 2
    for sidx in range(steps):
        moved = {}
        cands = sorted(cur)
        rnd.shuffle(cands)
        for p in cands[: rnd.randint(1, 3)]:
            base = p.rsplit("/", 1)[-1]
            mode = rnd.choice(["rename", "move", "move_new", "move_rename"])
            if mode == "rename":
                q = (p.rsplit("/", 1)[0] + "/" if "/" in p else "") + f"r{sidx}_" + base
            elif mode == "move":
                d = rnd.choice([""] + dirs)
                q = (d + "/" if d else "") + base
            elif mode == "move_new":
                q = f"newdir{sidx}/" + base
            else:
                d = rnd.choice([""] + dirs)
                q = (d + "/" if d else "") + f"m{sidx}_" + base
            # the new path must be one the history never recorded (C17 reading) and free
            ever = set(files) | {x for s in meta["steps"] for x in s["moves"].values()} | set(moved.values()) | set(cur)
            back = [o for s in meta["steps"] for o, n in s["moves"].items() if n == p and o not in cur and o not in moved.values()]
            if back and rnd.random() < 0.5:
                q = back[0]  # renamed back to the name it had before
            elif q in ever or q == p:
                continue
            moved[p] = q
        for p, q in moved.items():
            ops.append({"op": "mv", "src": p, "dst": q})
            cur[q] = cur.pop(p)
        news = {}
        if rnd.random() < 0.5:
            nn = f"brandnew{sidx}.txt"
            news[nn] = f"new file {sidx} content"
            ops.append({"op": "write", "path": nn, "data": news[nn]})
            cur[nn] = news[nn]
        fm = fm1 if rnd.random() < 0.5 else gen.fmt_subset(rnd, (1, 2))
        c = {"op": "create", "at": "", "h": fm, "now": "2026-03-01 12:00:%02d" % t}
        t += 1
        if use_dr:
            c["dr"] = True
        if rnd.random() < 0.15:
            c["n"] = True
        ops.append(c)
        meta["steps"].append({"moves": moved, "new": sorted(news), "dr": use_dr, "create_index": len(ops) - 1})
        if not use_dr:
            break
    n_main = len(ops)
    ops += [{"op": "verify", "at": ""}, {"op": "diff", "at": ""}, {"op": "create", "at": "", "h": fm1, "now": "2026-03-01 12:00:%02d" % t}]
    # finally: a renamed file whose content was also changed must fail
    last_moves = [q for s in meta["steps"] for q in s["moves"].values() if q in cur]
    if use_dr and last_moves:
        q = rnd.choice(last_moves)
        ops.append({"op": "write", "path": q, "data": "content changed after the rename"})
        ops.append({"op": "verify", "at": ""})
        meta["altered"] = q
    meta["n_main"] = n_main
    return {"seed": seed, "profile": "c17", "root": "root", "tree": tree, "ops": ops, "c17": meta}


def nested_rename_scenarios():
    """a rename INSIDE a nested history, sealed from the outer folder, with the same and with another format than the
    recorded one (the comparison digest then has to be computed afresh)"""
    out = []
    for fm2 in (["md5"], ["sha1"], ["xxh64", "md5"]):
        for mv in (("Cards/A001/clip1.mov", "Cards/A001/renamed.mov"), ("Cards/A001/clip1.mov", "Cards/A001/sub/clip1.mov")):
            tree = {"Cards/A001/clip1.mov": "clip one", "Cards/A001/clip2.mov": "clip two", "Cards/A001/sub/": None, "top.txt": "top"}
            ops = [{"op": "create", "at": "Cards/A001", "h": ["md5"], "now": "2026-03-01 12:00:01"}, {"op": "create", "at": "", "h": ["md5"], "now": "2026-03-01 12:00:02"},
                   {"op": "mv", "src": mv[0], "dst": mv[1]}, {"op": "create", "at": "", "h": fm2, "now": "2026-03-01 12:00:03", "dr": True},
                   {"op": "verify", "at": ""}, {"op": "diff", "at": ""}, {"op": "verify", "at": "Cards/A001"}, {"op": "create", "at": "", "h": ["md5"], "now": "2026-03-01 12:00:04"}]
            out.append({"profile": "c17-nested", "root": "root", "tree": tree, "ops": ops, "c17n": {"hist": "Cards/A001", "old": mv[0][len("Cards/A001/"):], "new": mv[1][len("Cards/A001/"):], "dr_index": 3}})
    return out


def monitor_nested(sc, res):
    meta, fails = sc["c17n"], []
    for i, st in enumerate(res["steps"]):
        op, io_ = st["op"], st["impl"]
        if io_ is None or i in meta.get("skip", []):
            continue
        if io_["exc"] is not None or io_["exit"] != 0:
            fails.append({"what": f"{op['op']} at {op.get('at', '')!r} exits {io_['exit']} {io_['exc'] or ''} (rename {meta['old']!r} -> {meta['new']!r} in the history at {meta['hist']!r}, create -dr {res['steps'][meta['dr_index']]['op']['h']}): missing {io_['missing']} new {io_['new']}", "replay": sc})
        if i == meta["dr_index"] and io_["exc"] is None:
            wr = M.written_by_hist(io_, "")
            recs = {r["path"]: r for name, m, _ in wr.get(meta["hist"], []) for r in m["records"]}
            r = recs.get(meta["new"])
            if r is None or r.get("prev") != meta["old"]:
                fails.append({"what": f"create -dr: the nested history's record of {meta['new']!r} has previousPath {None if r is None else r.get('prev')!r}, the file was {meta['old']!r} (relative to that history) before", "replay": sc})
    return fails


def late_dr_scenarios():
    """the renamed file reaches the -dr run after a run that did NOT detect renames: a plain create (which reports the
    old name missing and records the new one), or a create -sf of the new name.  The recorded file was renamed, its
    content is the same: create -dr records the new path with the former one and reports nothing missing."""
    out = []
    for between in ("plain", "sf"):
        for fm in (["md5"], ["sha1"]):
            tree = {"a.txt": "content of a", "keep.txt": "k", "s/c.txt": "content of c"}
            mid = {"op": "create", "at": "", "h": ["md5"], "now": "2026-03-01 12:00:02"}
            if between == "sf":
                mid["sf"] = ["b.txt"]
            ops = [{"op": "create", "at": "", "h": ["md5"], "now": "2026-03-01 12:00:01"}, {"op": "mv", "src": "a.txt", "dst": "b.txt"}, mid,
                   {"op": "create", "at": "", "h": fm, "now": "2026-03-01 12:00:03", "dr": True},
                   {"op": "verify", "at": ""}, {"op": "diff", "at": ""}, {"op": "create", "at": "", "h": ["md5"], "now": "2026-03-01 12:00:04"}]
            out.append({"profile": "c17-late-dr", "root": "root", "tree": tree, "ops": ops, "c17n": {"hist": "", "old": "a.txt", "new": "b.txt", "dr_index": 3, "skip": [2]}})
    return out


def folder_rename_scenarios():
    """a plain folder (no history of its own) renamed / moved with everything in it: every file below it is a renamed
    file and keeps its identity"""
    out = []
    for src, dst in (("s", "s2"), ("s", "t/s"), ("s/u", "u")):
        tree = {"s/x.txt": "content x", "s/y.txt": "content y", "s/u/z.txt": "content z", "k.txt": "k", "t/": None}
        f_old = "s/u/z.txt" if src == "s/u" else "s/x.txt"
        f_new = dst + f_old[len(src):]
        ops = [{"op": "create", "at": "", "h": ["md5"], "now": "2026-03-01 12:00:01"}, {"op": "mv", "src": src, "dst": dst},
               {"op": "create", "at": "", "h": ["md5"], "now": "2026-03-01 12:00:02", "dr": True},
               {"op": "verify", "at": ""}, {"op": "diff", "at": ""}, {"op": "create", "at": "", "h": ["md5"], "now": "2026-03-01 12:00:03"}]
        out.append({"profile": "c17-folder-rename", "impl_only": True, "root": "root", "tree": tree, "ops": ops, "c17n": {"hist": "", "old": f_old, "new": f_new, "dr_index": 2}})
    return out


def monitor(sc, res):
    if sc.get("c17n"):
        return monitor_nested(sc, res)
    meta = sc.get("c17")
    if not meta:
        return []
    fails = []
    steps = res["steps"]
    for s in meta["steps"]:
        st = steps[s["create_index"]]
        io_ = st["impl"]
        moves = s["moves"]
        if io_["exc"] is not None:
            fails.append({"what": f"create{' -dr' if s['dr'] else ''} aborted with {io_['exc']} after moves {moves}", "replay": sc})
            return fails
        wr = M.written_by_hist(io_, "")
        recs = {r["path"]: r for name, m, _ in wr.get("", []) for r in m["records"]}
        if s["dr"]:
            if io_["exit"] != 0:
                fails.append({"what": f"create -dr exits {io_['exit']} after renaming/moving {moves} (+ new files {s['new']}); output {io_['out'][-300:]!r}", "replay": sc})
            if io_["missing"]:
                fails.append({"what": f"create -dr reports missing {io_['missing']} after moves {moves}", "replay": sc})
            for p, q in moves.items():
                r = recs.get(q)
                if r is None:
                    fails.append({"what": f"create -dr: moved file {q!r} has no record", "replay": sc})
                elif r.get("prev") != p:
                    fails.append({"what": f"create -dr: record of {q!r} has previousPath {r.get('prev')!r}, the file was {p!r} before", "replay": sc})
            for n in s["new"]:
                if recs.get(n, {}).get("prev"):
                    fails.append({"what": f"create -dr: unrelated new file {n!r} got previousPath {recs[n]['prev']!r}", "replay": sc})
        else:
            if moves:
                if io_["exit"] != 10:
                    fails.append({"what": f"create without -dr exits {io_['exit']} after moves {moves} (expected 10: missing)", "replay": sc})
                if set(io_["missing"]) != set(moves):
                    fails.append({"what": f"create without -dr reports missing {sorted(io_['missing'])}, moved away were {sorted(moves)}", "replay": sc})
    tail = steps[meta["n_main"]:]
    all_dr = all(s["dr"] for s in meta["steps"])
    for st in tail:
        op, io_ = st["op"], st["impl"]
        if io_ is None:
            continue
        if io_["exc"] is not None:
            fails.append({"what": f"{op['op']} aborted with {io_['exc']} after the renames", "replay": sc})
            continue
        if op["op"] == "verify" and meta.get("altered") and st is tail[-1]:
            if io_["exit"] != 11 or meta["altered"] not in io_["mismatch"]:
                fails.append({"what": f"verify exits {io_['exit']} (mismatches {io_['mismatch']}) although the renamed file {meta['altered']!r} was also changed", "replay": sc})
        elif all_dr:
            if io_["exit"] != 0:
                fails.append({"what": f"{op['op']} exits {io_['exit']} after create -dr recorded the renames {[s['moves'] for s in meta['steps']]}: missing {io_['missing']} new {io_['new']}", "replay": sc})
        elif op["op"] in ("verify", "diff") and any(s["moves"] for s in meta["steps"]):
            # without -dr the same tree was recorded as missing + new; the create without -dr re-recorded the new paths
            pass
    return fails


def run(ctx):
    scs = nested_rename_scenarios() + late_dr_scenarios() + folder_rename_scenarios() + [build(ctx.seed * 1000609 + i) for i in range(ctx.scale(150, 2500))]
    return _scn.run_scn(ctx, scs, monitor, witness_ids=("D8", "D12"),
        assumptions=["pairwise distinct contents among recorded files; one history; the new path of a renamed file was never recorded before (DESIGN.md 9)"])


def replay(ctx, path):
    return _scn.replay_generic(ctx, path, monitor)
