"""Scenario executor: runs one scenario (a tree + a list of operations) on the real implementation and on the Lean
model, canonicalises both, and lists the differences.

Scenario JSON:
  {"root": "root", "tree": {"a.txt": "<text or hex:..>", "s/": null, ...},
   "ops": [ {"op": "create", "at": "", "h": ["md5"], "n": false, "dr": false, "sf": [], "i": [], "ii": [], "now": "..."},
            {"op": "write", "path": "a.txt", "data": "..."}, {"op": "rm", "path": ".."}, {"op": "mv", "src", "dst"},
            {"op": "mkdir", "path": ..}, {"op": "touch", "path", "mtime"},
            {"op": "verify", "at": "", "sf": null, "i": [], "ii": []}, {"op": "verifydh", "at", "h", "co", "ro"},
            {"op": "diff", "at"}, {"op": "info", "at"}, {"op": "infosf", "at", "file"}, {"op": "flatten", "at"},
            {"op": "tamper", "hist": "", "gen": 0, "kind": "append"}, {"op": "rmchain", "hist"}, {"op": "rmhist", "hist"} ]}
Paths in ops are POSIX, relative to the scenario root ("at", "hist", fs ops) or to "at" ("sf", "file").
"""
import os, json, shutil, datetime, glob, re
from . import rt
from .model import Driver

DEFAULT_NOW = "2026-03-01 12:00:00"


def data_bytes(d):
    if d is None:
        return None
    if isinstance(d, bytes):
        return d
    if d.startswith("hex:"):
        return bytes.fromhex(d[4:])
    return d.encode("utf-8")


def stamp_of(now):
    dt = datetime.datetime.strptime(now, "%Y-%m-%d %H:%M:%S")
    return dt.strftime("%Y-%m-%d_%H%M%SZ")


def tree_json(tree, rootname):
    """nested JSON for the model from the flat {path: data} dict"""
    root = {"name": rootname, "children": []}

    def getdir(parts):
        cur = root
        for p in parts:
            nxt = next((c for c in cur["children"] if c["name"] == p and "children" in c), None)
            if nxt is None:
                nxt = {"name": p, "children": []}
                cur["children"].append(nxt)
            cur = nxt
        return cur

    for path, d in tree.items():
        parts = [x for x in path.split("/") if x]
        if d is None or path.endswith("/"):
            getdir(parts)
        else:
            getdir(parts[:-1])["children"].append({"name": parts[-1], "content": data_bytes(d).hex()})
    return root


# ------------------------------------------------------------------ implementation side
class Impl:
    def __init__(self, sc, base):
        self.sc = sc
        self.base = base
        self.root = os.path.join(base, sc.get("root", "root"))
        os.makedirs(self.root)
        for p, d in sc["tree"].items():
            rt.mk(self.root, {p: data_bytes(d)}, mtime=sc.get("mtime", 1760000000))
        # second names of the same file (hard links): the tree lists both names with the same content, on disk they
        # share one inode
        for dst, src in (sc.get("hardlinks") or {}).items():
            if not (os.path.isfile(self.P(src)) and os.path.isfile(self.P(dst))):
                continue  # (a shrunk scenario may have lost one of the two names: the other stays a plain file)
            try:
                os.remove(self.P(dst))
                os.link(self.P(src), self.P(dst))
            except OSError:
                pass
        self.iifile = os.path.join(base, "_ii.txt")
        self.flat_n = 0
        try:
            os.symlink(".", os.path.join(base, "_lnk"))  # for the "symlink" spelling of root paths
        except OSError:
            pass

    def P(self, rel):
        return os.path.join(self.root, rel) if rel else self.root

    def manifests(self):
        out = {}
        for a in rt.ascmhl_dirs(self.root):
            ap = os.path.join(self.root, a)
            out[a] = sorted(f for f in os.listdir(ap))
        return out

    def _ii(self, lines):
        with open(self.iifile, "w", encoding="utf-8") as f:
            f.write("".join(l + "\n" for l in lines))
        return self.iifile

    def run(self, op):
        """one operation; `tz` runs it with another host time zone (and, for commands that do not write, the real
        clock - the frozen clock hides the zone)"""
        tz = op.get("tz")
        if not tz:
            return self._run(op)
        import time as _t
        old = os.environ.get("TZ")
        os.environ["TZ"] = tz
        _t.tzset()
        try:
            return self._run(op)
        finally:
            if old is None:
                os.environ.pop("TZ", None)
            else:
                os.environ["TZ"] = old
            _t.tzset()

    def _run(self, op):
        k = op["op"]
        now = op.get("now", DEFAULT_NOW)
        if op.get("tz") and k in ("info", "infosf", "verify", "diff", "verifydh"):
            now = None
        at = self.P(op.get("at", ""))
        if k in ("write",):
            fp = self.P(op["path"])
            if os.path.isfile(fp) and os.stat(fp).st_nlink > 1:
                os.remove(fp)  # a write replaces this NAME only (the other names of a hard-linked file keep the old bytes)
            rt.mk(self.root, {op["path"]: data_bytes(op["data"])}, mtime=op.get("mtime", 1760000100))
            return None
        if k == "mkdir":
            os.makedirs(self.P(op["path"]), exist_ok=True)
            return None
        if k == "rm":
            p = self.P(op["path"])
            if os.path.isdir(p):
                shutil.rmtree(p)
            elif os.path.exists(p):
                os.remove(p)
            return None
        if k == "mv":
            os.makedirs(os.path.dirname(self.P(op["dst"])), exist_ok=True)
            os.rename(self.P(op["src"]), self.P(op["dst"]))
            return None
        if k == "touch":
            os.utime(self.P(op["path"]), (op["mtime"], op["mtime"]))
            return None
        if k == "cptree":
            # a folder copied with everything in it, its ascmhl folder included (a card and its backup side by side)
            shutil.copytree(self.P(op["src"]), self.P(op["dst"]), symlinks=True)
            return None
        if k == "tamper":
            ad = os.path.join(self.P(op["hist"]), "ascmhl")
            ms = sorted(f for f in os.listdir(ad) if f.endswith(".mhl"))
            if not ms:
                return None
            fn = ms[op["gen"] % len(ms)]
            op["file"] = fn
            fp = os.path.join(ad, fn)
            b = open(fp, "rb").read()
            kind = op["kind"]
            if kind == "remove":
                os.remove(fp)
                op["state"] = "missing"
                return None
            pos = op.get("pos", 0) % max(1, len(b)) if op.get("pos", 0) >= 0 else len(b) - 1
            if kind == "flip":
                b2 = b[:pos] + bytes([b[pos] ^ (1 << (op.get("bit", 0) % 8))]) + b[pos + 1 :]
            elif kind == "insert":
                b2 = b[:pos] + b" " + b[pos:]
            elif kind == "delete":
                b2 = b[:pos] + b[pos + 1 :]
            elif kind == "truncate":
                b2 = b[: len(b) // 2]
            elif kind == "empty":
                b2 = b""
            elif kind == "append":
                b2 = b + b"\n"
            elif kind == "cr_insert":
                k = b.find(b"\n", pos)
                k = k if k >= 0 else b.find(b"\n")
                b2 = b[:k] + b"\r" + b[k:]
            elif kind == "crlf":
                b2 = b.replace(b"\n", b"\r\n")
            elif kind == "bom":
                b2 = b"\xef\xbb\xbf" + b
            elif kind == "trailing_space":
                k = b.find(b"\n", pos)
                k = k if k >= 0 else b.find(b"\n")
                b2 = b[:k] + b" " + b[k:]
            elif kind == "case":
                # upper-case one hex digit of a recorded digest (same value for a case-insensitive comparison)
                import re as _re
                m = _re.search(rb">([0-9a-f]*[a-f][0-9a-f]*)<", b)
                b2 = b[: m.start(1)] + m.group(1).upper() + b[m.end(1) :] if m else b + b" "
            elif kind == "swap":
                # the bytes of ANOTHER manifest of the same chain under this name (a generation rolled back to an
                # earlier one / two manifests exchanged): a well-formed, once-listed manifest - but not this entry's
                others = [m_ for m_ in ms if m_ != fn]
                b2 = open(os.path.join(ad, others[op.get("pos", 0) % len(others)]), "rb").read() if others else b + b"\n"
            else:
                raise ValueError(kind)
            st = os.stat(fp)
            with open(fp, "wb") as f:
                f.write(b2)
            if op.get("keep_mtime", True):
                os.utime(fp, ns=(st.st_atime_ns, st.st_mtime_ns))
            op["state"] = "modified"
            return None
        if k == "orphan":
            # what a create leaves behind when it is killed between its two replaces: a complete manifest that the chain
            # file does not list (here: a copy of the latest manifest under the next number)
            ad = os.path.join(self.P(op["hist"]), "ascmhl")
            ms = sorted(f for f in os.listdir(ad) if f.endswith(".mhl")) if os.path.isdir(ad) else []
            if not ms:
                return None
            src = ms[-1]
            num = int(src.split("_")[0]) + 1
            dst = "%04d_%s" % (num, src.split("_", 1)[1].replace(".mhl", "x.mhl") if op.get("other_name") else src.split("_", 1)[1])
            if os.path.exists(os.path.join(ad, dst)):
                return None
            shutil.copy(os.path.join(ad, src), os.path.join(ad, dst))
            op["file"], op["as"] = src, dst
            return None
        if k == "wipe":
            ad = os.path.join(self.P(op["hist"]), "ascmhl")
            for fn in os.listdir(ad) if os.path.isdir(ad) else []:
                fp = os.path.join(ad, fn)
                if os.path.isfile(fp):
                    os.remove(fp)
            return None
        if k == "rmchain":
            cp = os.path.join(self.P(op["hist"]), "ascmhl", "ascmhl_chain.xml")
            if os.path.exists(cp):
                if op.get("leave_tmp"):
                    # the chain file is gone, a complete copy under the chain writer's temporary name is left
                    os.replace(cp, cp + ".tmp")
                else:
                    os.remove(cp)
            return None
        if k == "legacychain":
            # the chain kept in the text form of the first releases (ascmhl/chain.txt: "0001 <manifest> c4: <digest>"
            # per generation), without (or, keep_xml, beside) ascmhl_chain.xml
            ad = os.path.join(self.P(op["hist"]), "ascmhl")
            cp = os.path.join(ad, "ascmhl_chain.xml")
            if os.path.exists(cp):
                import xml.etree.ElementTree as _ET
                lines = []
                for el in _ET.parse(cp).getroot():
                    if el.tag.endswith("hashlist"):
                        kids = {c.tag.split("}")[-1]: c.text for c in el}
                        lines.append("%04d %s c4: %s" % (int(el.attrib.get("sequencenr", "0")), kids.get("path"), kids.get("c4")))
                with open(os.path.join(ad, "chain.txt"), "w", encoding="utf-8") as f:
                    f.write("\n".join(lines) + "\n")
                if not op.get("keep_xml"):
                    os.remove(cp)
            return None
        if k == "staletmp":
            # what an earlier create left behind when it was killed while writing: the first half of the chain file under
            # the chain writer's temporary name, the first half of the latest manifest under a manifest's temporary name
            ad = os.path.join(self.P(op["hist"]), "ascmhl")
            cp = os.path.join(ad, "ascmhl_chain.xml")
            if os.path.exists(cp):
                b = open(cp, "rb").read()
                with open(cp + ".tmp", "wb") as f:
                    f.write(b[: len(b) // 2] if op.get("torn", True) else b)
                ms = sorted(x for x in os.listdir(ad) if x.endswith(".mhl"))
                if ms and op.get("manifest", True):
                    b = open(os.path.join(ad, ms[-1]), "rb").read()
                    with open(os.path.join(ad, "%04d_left_2026-01-01_000000Z.mhl.tmp" % (len(ms) + 1)), "wb") as f:
                        f.write(b[: len(b) // 2])
            return None
        if k == "rmhist":
            shutil.rmtree(os.path.join(self.P(op["hist"]), "ascmhl"), ignore_errors=True)
            return None

        # how the root path is spelled on the command line (the model only sees the normalised path)
        cwd = None
        sp = op.get("spell")
        if sp == "slash":
            at = at + "/"
        elif sp == "dot":
            at = os.path.join(at, ".")
        elif sp == "dotdot" :
            at = os.path.join(at, "..", os.path.basename(at)) if os.path.basename(at) else at
        elif sp == "relative":
            cwd = os.path.dirname(at.rstrip("/")) or "/"
            at = os.path.basename(at.rstrip("/"))
        elif sp == "cwd":
            cwd = at
            at = "."
        elif sp == "updir":
            # the root spelled through one of its own sub-folders: root/<sub>/..
            subs = sorted(d for d in os.listdir(at) if os.path.isdir(os.path.join(at, d)) and d != "ascmhl") if os.path.isdir(at) else []
            if subs:
                at = os.path.join(at, subs[0], "..")
        absat = self.P(op.get("at", ""))
        sfbase = absat
        if sp == "symlink":
            # the root is reached through a symbolic link in one of its ancestors (a linked volume folder); the
            # -sf paths are spelled through the same link
            link = os.path.join(self.base, "_lnk")
            if not os.path.islink(link):
                os.symlink(".", link)
            at = os.path.join(link, os.path.relpath(at, self.base))
            sfbase = at
        sf_rel = op.get("sf_rel") if k in ("create", "verify") and op.get("sf") is not None and sp is None else None
        relto = None
        if sf_rel:
            # -sf paths (and the root) given RELATIVE to the working directory: "base" = the folder above the root,
            # "root" = the root itself, "sub" = the first sub-folder of the root (paths then start with ..)
            relto = absat
            if sf_rel == "base":
                relto = os.path.dirname(absat.rstrip("/")) or "/"
            elif sf_rel == "sub":
                subs = sorted(d for d in os.listdir(absat) if os.path.isdir(os.path.join(absat, d)) and d != "ascmhl")
                if subs:
                    relto = os.path.join(absat, subs[0])
            cwd = relto
            if op.get("sf_rel_root", True):
                at = os.path.relpath(absat, relto)
        before = self.manifests()
        asc_before = self.asc_snapshot()
        media_before = self.media_snapshot()

        def sfp(s_):
            full = os.path.join(sfbase, s_) if s_ else sfbase
            if relto is None:
                return full
            # (the tool resolves a relative -sf of `create` against the working directory and a relative -sf of
            # `verify` against the ROOT path)
            return os.path.relpath(os.path.normpath(full), absat if k == "verify" else relto)
        if k == "create":
            args = [at]
            for h in op.get("h", []):
                args += ["-h", h]
            if op.get("n"):
                args.append("-n")
            if op.get("dr"):
                args.append("-dr")
            raws = op.get("sf_raw") or op.get("sf", [])
            for s in raws:
                args += ["-sf", sfp(s)]
            for i in op.get("i", []):
                args += ["-i", i]
            if op.get("ii"):
                args += ["-ii", self._ii(op["ii"])]
            for o2 in ("author_name", "author_email", "author_phone", "author_role", "location", "comment"):
                if op.get(o2) is not None:
                    args += ["--" + o2, op[o2]]
            r = rt.run("create", args, now, cwd)
        elif k == "verify":
            args = [at]
            if op.get("sf") is not None:
                args += ["-sf", sfp(op.get("sf_raw") or op["sf"])]
            for i in op.get("i", []):
                args += ["-i", i]
            if op.get("ii"):
                args += ["-ii", self._ii(op["ii"])]
            r = rt.run("verify", args, now, cwd)
        elif k == "verifydh":
            args = [at, "-dh"]
            if op.get("h"):
                args += ["-h", op["h"]]
            if op.get("co"):
                args.append("-co")
            if op.get("ro"):
                args.append("-ro")
            for i in op.get("i", []):
                args += ["-i", i]
            if op.get("ii"):
                args += ["-ii", self._ii(op["ii"])]
            r = rt.run("verify", args, now, cwd)
        elif k == "diff":
            args = [at]
            for i in op.get("i", []):
                args += ["-i", i]
            if op.get("ii"):
                args += ["-ii", self._ii(op["ii"])]
            r = rt.run("diff", args, now, cwd)
        elif k == "info":
            r = rt.run("info", [at], now, cwd)
        elif k == "infosf":
            if not all(os.path.exists(os.path.join(absat, f_)) for f_ in (op.get("files") or [op["file"]])) or not os.path.isdir(absat):
                return None
            if op.get("rel_cwd") and "/" in op["file"]:
                # a relative FILE path, given from the folder the file is in (not the history root)
                fdir, fname = os.path.split(os.path.join(sfbase, op["file"]))
                r = rt.run("info", ([] if op.get("auto_root") else [at]) + ["-sf", fname], now, fdir)
            elif op.get("auto_root"):
                # no ROOT_PATH: the tool searches upwards for the nearest ascmhl folder
                r = rt.run("info", ["-sf", os.path.join(sfbase, op["file"])], now, cwd)
            elif op.get("files"):
                # -sf given several times in one call
                a_ = [] if op.get("auto_root") else [at]
                for f_ in op["files"]:
                    a_ += ["-sf", os.path.join(sfbase, f_)]
                r = rt.run("info", a_, now, cwd)
            else:
                r = rt.run("info", [at, "-sf", os.path.join(sfbase, op["file"])], now, cwd)
        elif k == "verifypl":
            pl = getattr(self, "last_pl", None)
            if pl is None:
                return None
            args = [at, "-pl", pl]
            for i in op.get("i", []):
                args += ["-i", i]
            r = rt.run("verify", args, now, cwd)
        elif k == "flatten":
            if not (op.get("same_dest") and self.flat_n):
                self.flat_n += 1
            dest = os.path.join(self.base, "_flat%d" % self.flat_n)
            fopts = []
            for o2 in ("author_name", "author_email", "author_phone", "author_role", "location", "comment"):
                if op.get(o2) is not None:
                    fopts += ["--" + o2, op[o2]]
            if op.get("n"):
                fopts.append("-n")
            for i_ in op.get("i", []):
                fopts += ["-i", i_]
            if op.get("ii"):
                fopts += ["-ii", self._ii(op["ii"])]
            if op.get("dest_missing_parent"):
                # a destination whose parent folders do not exist (a mistyped volume): whatever flatten does, it has no
                # business creating folders that are not below the destination
                dest = os.path.join(self.base, "_nowhere%d" % self.flat_n, "deep", "lists")
                r = rt.run("flatten", [at, dest] + fopts, now, cwd)
            elif op.get("dest_rel"):
                # relative destination, invoked from the parent of the scenario root
                r = rt.run("flatten", [at, "_flat%d" % self.flat_n] + fopts, now, self.base)
            else:
                r = rt.run("flatten", [at, dest] + fopts, now, cwd)
            op["_dest"] = dest
        else:
            raise ValueError(k)
        after = self.manifests()
        obs = {"exit": r.exit, "exc": r.exc}
        obs["asc_before"], obs["asc_after"] = asc_before, self.asc_snapshot()
        obs["media_before"], obs["media_after"] = media_before, self.media_snapshot()
        cls = rt.classify_output(r.out)
        relat = op.get("at", "")
        obs["mismatch"] = sorted(set(cls["mismatch"]))
        obs["missing"] = sorted(set(cls["missing"]))
        obs["new"] = sorted(set(cls["new"]))
        obs["dirmismatch"] = sorted(set(x[1] for x in cls["dirmismatch"]))
        obs["out"] = r.out
        written = []
        for a, files in after.items():
            newf = [f for f in files if f not in before.get(a, []) and f.endswith(".mhl")]
            for f in newf:
                hist = os.path.relpath(os.path.dirname(os.path.join(self.root, a)), absat)
                try:
                    m = rt.read_manifest(os.path.join(self.root, a, f))
                except Exception as e:  # not well-formed: reported by the pool as a failure of the run
                    obs.setdefault("unparsable", []).append({"file": os.path.join(a, f), "error": repr(e)[:200]})
                    continue
                written.append({"hist": hist, "gen": m, "file": f})
        obs["written"] = sorted(written, key=lambda w: (w["hist"], w["file"]))
        if k == "flatten" and os.path.isdir(op["_dest"]):
            pls = glob.glob(os.path.join(glob.escape(op["_dest"]), "*", "*.mhl"))
            if pls:
                self.last_pl = sorted(pls)[-1]
            obs["flatten_dest"] = {os.path.relpath(os.path.join(dp, f), op["_dest"]): open(os.path.join(dp, f), "rb").read() for dp, _, fs in os.walk(op["_dest"]) for f in fs}
            obs["flatten_dest_dirs"] = sorted(os.path.relpath(os.path.join(dp, d), op["_dest"]) for dp, ds, _ in os.walk(op["_dest"]) for d in ds)
            obs["written"] = [{"hist": ".", "gen": rt.read_manifest(p), "file": os.path.basename(p)} for p in sorted(pls)]
        return obs

    def asc_snapshot(self):
        """{path relative to the scenario root: bytes} of every file inside an ascmhl folder"""
        out = {}
        for a in rt.ascmhl_dirs(self.root):
            for dp, dns, fns in os.walk(os.path.join(self.root, a)):
                for fn in fns:
                    p = os.path.join(dp, fn)
                    with open(p, "rb") as f:
                        out[os.path.relpath(p, self.root)] = f.read()
        return out

    def media_snapshot(self):
        """{relpath: bytes | None(dir)} + metadata of everything outside ascmhl folders"""
        out = {}
        for dp, dns, fns in os.walk(self.root):
            dns[:] = [x for x in dns if x != "ascmhl"]
            rel = os.path.relpath(dp, self.root)
            st = os.lstat(dp)
            out[rel] = (None, st.st_mode, st.st_mtime_ns if rel != "." else 0)
            for fn in fns:
                p = os.path.join(dp, fn)
                st = os.lstat(p)
                with open(p, "rb") as f:
                    out[os.path.normpath(os.path.join(rel, fn))] = (f.read(), st.st_mode, st.st_mtime_ns)
        return out

    def file_contents(self):
        out = set()
        for dp, dns, fns in os.walk(self.root):
            if os.path.basename(dp) == "ascmhl":
                dns[:] = []
                continue
            for fn in fns:
                with open(os.path.join(dp, fn), "rb") as f:
                    out.add(f.read())
        return out


# ------------------------------------------------------------------ canonical forms
def canon_gen_impl(m):
    """manifest read by expat -> comparable form"""
    recs = []
    for r in m["records"]:
        if r["kind"] == "dir":
            ents = [{"fmt": e["fmt"], "digest": e["digest"], "action": e["action"], "structure": e["structure"]} for e in r["entries"]]
        else:
            ents = [{"fmt": e["fmt"], "digest": e["digest"], "action": e["action"], "structure": None} for e in r["entries"]]
        recs.append({"path": r["path"], "kind": r["kind"], "size": r.get("size"), "prev": r.get("prev"), "entries": ents})
    rh = m["roothash"]
    if rh is not None:
        rh = [{"fmt": e["fmt"], "digest": e["digest"], "action": e["action"], "structure": e["structure"]} for e in rh]
    return {"file": m["file"], "process": m.get("process"), "roothash": rh, "ignore": m["ignore"], "records": recs, "references": [x["path"] for x in m["references"]]}


def canon_gen_model(g):
    recs = []
    for r in g["records"]:
        ents = r["entries"]
        recs.append({"path": r["path"], "kind": r["kind"], "size": r["size"] if r["kind"] == "file" else None, "prev": r["prev"], "entries": ents})
    return {"file": g["file"], "process": g["process"], "roothash": g["roothash"], "ignore": g["ignore"], "records": recs, "references": g["references"]}


def compare(op, io, mo):
    """list of textual differences between implementation observation io and model observation mo"""
    d = []
    k = op["op"]
    if io["exc"] is not None:
        mi = (mo.get("err") or {}).get("internal")
        if mi != io["exc"]:
            d.append(f"impl uncaught {io['exc']}, model err {mo.get('err')}")
        return d
    if io["exit"] != mo["exit"]:
        d.append(f"exit impl {io['exit']} model {mo['exit']} (model err {mo.get('err')})")
    if k in ("create", "verify", "diff", "verifypl"):
        for key in ("mismatch", "missing", "new"):
            if k == "create" and key == "new":
                continue
            if sorted(io[key]) != sorted(mo.get(key, [])):
                d.append(f"{key}: impl {io[key]} model {mo.get(key)}")
    if k == "verifydh":
        if sorted(io["dirmismatch"]) != sorted(mo.get("dirmismatch", [])):
            d.append(f"dirmismatch: impl {io['dirmismatch']} model {mo.get('dirmismatch')}")
    if k in ("create", "flatten"):
        iw = [(w["hist"], canon_gen_impl(w["gen"])) for w in io["written"]]
        mw = sorted([(w["hist"], canon_gen_model(w["gen"])) for w in mo.get("written", [])], key=lambda x: (x[0], x[1]["file"]))
        if k == "flatten":
            # packing list name and location are outside the model's tree
            for _, g in iw + mw:
                g["file"] = "PL"
        if len(iw) != len(mw):
            d.append(f"written: impl {[(h, g['file']) for h, g in iw]} model {[(h, g['file']) for h, g in mw]}")
        else:
            for (ih, ig), (mh, mg) in zip(iw, mw):
                if ih != mh:
                    d.append(f"written hist: impl {ih} model {mh}")
                for key in ("file", "process", "roothash", "ignore", "references"):
                    if ig[key] != mg[key]:
                        d.append(f"gen {ih}/{ig['file']} {key}: impl {ig[key]} model {mg[key]}")
                if ig["records"] != mg["records"]:
                    ip = [r["path"] for r in ig["records"]]
                    mp = [r["path"] for r in mg["records"]]
                    if ip != mp:
                        d.append(f"gen {ih}/{ig['file']} record paths: impl {ip} model {mp}")
                    else:
                        for a, b in zip(ig["records"], mg["records"]):
                            if a != b:
                                d.append(f"gen {ih}/{ig['file']} record {a['path']}: impl {a} model {b}")
    if k == "info" and io["exit"] == 0:
        pass
    return d


def parse_info(out):
    """(section root or '.', generation number, creation date) lines of `info`"""
    res = []
    cur = "."
    for ln in rt._ANSI.sub("", out).split("\n"):
        m = re.match(r"Child History at (.*):$", ln)
        if m:
            cur = m.group(1)
        m = re.match(r"\s+Generation (\d+) \((.*?)\)\s*(.*)$", ln)
        if m:
            res.append((cur, int(m.group(1)), m.group(2), m.group(3)))
    return res


def parse_infosf(out):
    """[(header path, [(generation number, creation date, rest of the line)])] of `info -sf`: one section per FILE"""
    res = []
    for ln in rt._ANSI.sub("", out).split("\n"):
        m = re.match(r"\s+Generation (\d+) \((.*?)\)\s*(.*)$", ln)
        if m:
            if res:
                res[-1][1].append((int(m.group(1)), m.group(2), m.group(3)))
            continue
        if ln.startswith("Info with history at path:") or not ln.strip() or ln.startswith(" "):
            continue
        if ln.endswith(":"):
            res.append((ln[:-1], []))
    return res


# ------------------------------------------------------------------ both sides
def run_scenario(sc, drv=None, keep=False, impl_only=False):
    """returns dict(ops=[(op, impl_obs, model_obs, diffs)], diffs=[...])"""
    own = False
    if drv is None and not impl_only:
        drv = Driver()
        own = True
    base = rt.mktemp("sc_")
    res = {"steps": [], "diffs": []}
    try:
        impl = Impl(sc, base)
        if not impl_only:
            drv.send({"op": "reset", "tree": tree_json(sc["tree"], sc.get("root", "root"))})
        for idx, op in enumerate(sc["ops"]):
            op = dict(op)
            io = impl.run(op)
            mo = None
            if not impl_only:
                k = op["op"]
                if k in ("write",):
                    drv.send({"op": "write", "path": op["path"], "content": data_bytes(op["data"]).hex()})
                elif k in ("mkdir", "rm", "mv", "rmhist"):
                    drv.send(op)
                elif k in ("touch", "cptree"):
                    pass  # (cptree only occurs in scenarios that run without the model)
                elif k == "tamper":
                    if "file" in op:
                        drv.send({"op": "tamper", "hist": op["hist"], "file": op["file"], "state": op["state"]})
                elif k == "orphan":
                    if "as" in op:
                        drv.send({"op": "orphan", "hist": op["hist"], "file": op["file"], "as": op["as"]})
                elif k == "rmchain":
                    drv.send({"op": "rmchain", "hist": op["hist"], "present": False})
                elif k == "wipe":
                    drv.send({"op": "rmchain", "hist": op["hist"], "present": False})
                else:
                    drv.add_contents(impl.file_contents() if k != "create" or True else [])
                    mop = dict(op)
                    mop["stamp"] = stamp_of(op.get("now", DEFAULT_NOW))
                    mop.pop("_dest", None)
                    if k in ("verifypl", "infosf") and io is None:
                        res["steps"].append({"op": op, "impl": None, "model": None})
                        continue
                    if op.get("impl_only"):
                        res["steps"].append({"op": op, "impl": io, "model": None})
                        continue
                    if k == "infosf" and op.get("files"):
                        # the model answers one file at a time
                        mos = []
                        for f_ in op["files"]:
                            m1 = dict(mop)
                            m1.pop("files")
                            m1["file"] = f_
                            mos.append(drv.command(m1, commit=False))
                        mo = dict(mos[0])
                        if all(m_.get("exit") == 0 for m_ in mos):
                            mo["lines"] = [l for m_ in mos for l in m_.get("lines", [])]
                    else:
                        mo = drv.command(mop, commit=(k == "create"))
                    diffs = compare(op, io, mo)
                    if k == "info" and io["exit"] == 0 and io["exc"] is None:
                        lnk = os.path.join(base, "_lnk")
                        ig = [(os.path.relpath(base + s[len(lnk):] if s.startswith(lnk + os.sep) else s, impl.P(op.get("at", ""))) if s != "." else ".", n) for s, n, _, _ in parse_info(io["out"])]
                        mg = [(g[0], g[1]) for g in mo.get("gens", [])]
                        if ig != mg:
                            diffs.append(f"info generations: impl {ig} model {mg}")
                    if k == "infosf" and io["exit"] == 0 and io["exc"] is None:
                        il = [(n, rest) for _, ls_ in parse_infosf(io["out"]) for n, _, rest in ls_]
                        ml = [(l[0], f"{l[1]}: {l[2]} ({l[3]})") for l in mo.get("lines", [])]
                        if il != ml:
                            diffs.append(f"info -sf lines: impl {il} model {ml}")
                    for x in diffs:
                        res["diffs"].append(f"op#{idx} {k}: {x}")
            if io is not None:
                io = {k2: v for k2, v in io.items()}
            res["steps"].append({"op": op, "impl": io, "model": mo})
        res["root"] = impl.root
    finally:
        if not keep:
            shutil.rmtree(base, ignore_errors=True)
        if own:
            drv.close()
    return res


if __name__ == "__main__":
    import sys

    sc = json.load(open(sys.argv[1]))
    r = run_scenario(sc)
    for s in r["steps"]:
        if s["impl"] is not None:
            print(s["op"]["op"], "impl exit", s["impl"]["exit"], s["impl"]["exc"], "model exit", (s["model"] or {}).get("exit"))
    print("DIFFS:", *r["diffs"], sep="\n  ")
