namespace C4

def base : Nat := 58
def width : Nat := 88

/-- least-significant-first base-58 digits, mirrors the `while hash_value != 0` loop -/
def digitsRev (n : Nat) : List Nat :=
  if h : n = 0 then [] else (n % base) :: digitsRev (n / base)
termination_by n
decreasing_by simp [base]; omega

def digits (n : Nat) : List Nat := (digitsRev n).reverse

/-- rjust(width, zero) -/
def rjust (w : Nat) (z : α) (l : List α) : List α := List.replicate (w - l.length) z ++ l

def encodeDigits (n : Nat) : List Nat := rjust width 0 (digits n)

/-- the decode loop: result = result * 58 + digit -/
def decodeDigits (ds : List Nat) : Nat := ds.foldl (fun r d => r * base + d) 0

theorem foldl_replicate_zero (k : Nat) (ds : List Nat) :
    (List.replicate k 0 ++ ds).foldl (fun r d => r * base + d) 0 = ds.foldl (fun r d => r * base + d) 0 := by
  induction k with
  | zero => simp
  | succ k ih => simpa [List.replicate_succ] using ih

theorem foldl_append_digit (ds : List Nat) (d : Nat) :
    decodeDigits (ds ++ [d]) = decodeDigits ds * base + d := by
  simp [decodeDigits, List.foldl_append]

theorem decode_digits (n : Nat) : decodeDigits (digits n) = n := by
  induction n using Nat.strongRecOn with
  | _ n ih =>
    unfold digits digitsRev
    split
    · next h => simp [decodeDigits, h]
    · next h =>
      simp only [List.reverse_cons]
      rw [foldl_append_digit]
      have : n / base < n := by simp [base]; omega
      have := ih (n / base) this
      unfold digits at this
      rw [this]
      simp [base]; omega

theorem digitsRev_length_le (n k : Nat) (h : n < base ^ k) : (digitsRev n).length ≤ k := by
  induction k generalizing n with
  | zero => simp at h; unfold digitsRev; simp [h]
  | succ k ih =>
    unfold digitsRev
    split
    · simp
    · simp only [List.length_cons]
      have : n / base < base ^ k := by
        rw [Nat.div_lt_iff_lt_mul (by simp [base])]; rw [Nat.pow_succ] at h; exact h
      have := ih _ this
      omega

theorem roundtrip (n : Nat) : decodeDigits (encodeDigits n) = n := by
  unfold encodeDigits rjust decodeDigits
  rw [foldl_replicate_zero]
  exact decode_digits n

theorem encode_length (n : Nat) (h : n < 2 ^ 512) : (encodeDigits n).length = width := by
  have h' : n < base ^ width := by
    have : (2:Nat) ^ 512 < base ^ width := by
      set_option exponentiation.threshold 600 in decide +kernel
    omega
  have := digitsRev_length_le n width h'
  simp [encodeDigits, rjust, digits]
  omega

end C4
#print axioms C4.roundtrip
#print axioms C4.encode_length
