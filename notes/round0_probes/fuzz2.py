import sys, os, random, shutil, tempfile, time, glob, json, collections
which = sys.argv[1]; seed0=int(sys.argv[2]); N=int(sys.argv[3])
if which == "fixed": sys.path.insert(0, "/root/scratch/repo_fix")
os.environ["TZ"]="UTC"; time.tzset()
from click.testing import CliRunner
import ascmhl, ascmhl.commands as C
import xml.etree.ElementTree as ET
from lxml import etree
XSD = etree.XMLSchema(etree.parse("/repo/xsd/ASCMHL.xsd"))
R = CliRunner(); NS="{urn:ASC:MHL:v2.0}"
FM = ["md5","sha1","xxh128","xxh3","xxh64","c4"]
NAMES = ["a","b","A","AB","a b","é","x&y","f.txt","g.tmp","c","d","e","k","m"]
base = tempfile.mkdtemp(dir="/dev/shm", prefix="fz2_")
def inv(cmd, args):
    res = R.invoke(getattr(C,cmd), [str(a) for a in args])
    exc = type(res.exception).__name__ if res.exception and not isinstance(res.exception, SystemExit) else None
    return res.exit_code, exc, res.output
cnt=[0]
def gen_tree(rnd, root, depth=0):
    os.makedirs(root, exist_ok=True)
    for n in rnd.sample(NAMES, rnd.randint(1, 4)):
        p = os.path.join(root, n)
        if depth < 2 and rnd.random() < 0.35: gen_tree(rnd, p, depth+1)
        else:
            cnt[0]+=1
            with open(p, "wb") as f: f.write(b"content-%d" % cnt[0])   # pairwise distinct
def allfiles(root):
    return sorted(os.path.relpath(os.path.join(d,f),root) for d,ds,fs in os.walk(root) for f in fs if "/ascmhl" not in d and not d.endswith("ascmhl") and f!=".DS_Store")
def alldirs(root):
    return sorted(os.path.relpath(os.path.join(d,x),root) for d,ds,fs in os.walk(root) for x in ds if x!="ascmhl" and "/ascmhl" not in d)
fails = collections.Counter(); examples={}
def fail(kind, info):
    fails[kind]+=1; examples.setdefault(kind, info)
def fmts(rnd): return sum((["-h",f] for f in rnd.sample(FM, rnd.randint(1,2))),[])
for it in range(N):
    rnd = random.Random(seed0*100000+it)
    root = os.path.join(base, "root"); shutil.rmtree(root, ignore_errors=True)
    gen_tree(rnd, root); log=[]
    nested = rnd.random()<0.3 and alldirs(root)
    if nested:
        d = rnd.choice(alldirs(root)); r=inv("create",[os.path.join(root,d)]+fmts(rnd)); log.append(("create",d,r[:2]))
    r = inv("create",[root]+fmts(rnd)); log.append(("create",".",r[:2]))
    if r[:2]!=(0,None): fail("create1", log); continue
    ok=True
    for g in range(rnd.randint(1,3)):
        # rename/move step
        files = allfiles(root); dirs=["."]+alldirs(root)
        k = rnd.randint(1, min(3,len(files))); moved=[]
        for f in rnd.sample(files,k):
            if nested and (f.startswith(d+"/") ): continue   # keep within one history: skip child files
            dest_dir = rnd.choice([os.path.dirname(f) or ".", rnd.choice(dirs), "newdir%d"%g])
            if nested and (dest_dir==d or dest_dir.startswith(d+"/")): continue
            os.makedirs(os.path.join(root,dest_dir),exist_ok=True)
            newname = rnd.choice([os.path.basename(f), "ren%d_%s"%(g,os.path.basename(f))])
            dst = os.path.normpath(os.path.join(dest_dir,newname))
            if dst==f or os.path.exists(os.path.join(root,dst)): continue
            os.rename(os.path.join(root,f), os.path.join(root,dst)); moved.append((f,dst))
        if rnd.random()<0.4:
            cnt[0]+=1; open(os.path.join(root,"unrelated%d"%g),"wb").write(b"new-%d"%cnt[0])
        if not moved: continue
        # without -dr: verify should say missing+new
        rv = inv("verify",[root])
        if rv[:2]!=(21,None): fail(f"nodr_verify_{rv[:2]}", dict(log=log,moved=moved,out=rv[2][-200:]))
        rc = inv("create",[root,"-dr"]+fmts(rnd)+(["-n"] if rnd.random()<0.2 else [])); log.append(("create-dr",moved,rc[:2]))
        if rc[:2]!=(0,None): fail(f"dr_create_{rc[:2]}", dict(log=log,out=rc[2][-300:])); ok=False; break
        ms = sorted(glob.glob(glob.escape(root)+"/ascmhl/*.mhl"))[-1]
        if not XSD.validate(etree.parse(ms)): fail("dr_xsd_invalid", dict(log=log, err=str(XSD.error_log.last_error)[:200]))
        t = ET.parse(ms).getroot(); prev={}
        for h in t.find(NS+"hashes"):
            pp = h.find(NS+"previousPath")
            if pp is not None: prev[h.find(NS+"path").text]=pp.text
        for (src,dst) in moved:
            if prev.get(dst)!=src: fail("dr_prev_missing_or_wrong", dict(log=log, prev=prev, moved=moved))
        extra = {k:v for k,v in prev.items() if (v,k) not in moved}
        if extra: fail("dr_spurious_prev", dict(log=log, extra=extra, moved=moved))
        for cmd,a in [("verify",[root]),("diff",[root]),("verify",[root,"-dh"]),("create",[root]+fmts(rnd))]:
            rr = inv(cmd,a)
            if rr[:2]!=(0,None): fail(f"after_dr_{cmd}{'_dh' if '-dh' in a else ''}_{rr[:2]}", dict(log=log, out=rr[2][-300:]))
    if ok and rnd.random()<0.5 and allfiles(root):
        f = rnd.choice(allfiles(root)); open(os.path.join(root,f),"ab").write(b"!")
        rv = inv("verify",[root])
        if rv[:2]!=(11,None) or os.path.basename(f) not in rv[2]: fail(f"alter_after_dr_verify_{rv[:2]}", dict(log=log,f=f,out=rv[2][-200:]))
print(which, "iters", N, "failure kinds", len(fails))
for k,v in fails.most_common(): print(v, k, json.dumps(examples[k], ensure_ascii=False)[:700])
shutil.rmtree(base)
