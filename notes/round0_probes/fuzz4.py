import sys, os, random, shutil, tempfile, time, glob, json, collections, datetime
which = sys.argv[1]; seed0=int(sys.argv[2]); N=int(sys.argv[3])
if which == "fixed": sys.path.insert(0, "/root/scratch/repo_fix")
os.environ["TZ"]="UTC"; time.tzset()
from click.testing import CliRunner
import ascmhl, ascmhl.commands as C, ascmhl.hashlist_xml_parser as HP
import xml.etree.ElementTree as ET
from lxml import etree
XSD = etree.XMLSchema(etree.parse("/repo/xsd/ASCMHL.xsd")); XSDD = etree.XMLSchema(etree.parse("/repo/xsd/ASCMHLDirectory__combined.xsd"))
R = CliRunner(); NS="{urn:ASC:MHL:v2.0}"
FM = ["md5","sha1","xxh128","xxh3","xxh64","c4"]
NAMES = ["a","b","A","AB","a b","é","x&y","z<1>","f.txt","g.tmp","日本","q'\"","c","d"]
STR = ["-", "", " ", "Ann Lee", "a&b<c>\"'", "日本語 ✓", "  lead", "trail  ", "𝄞clef", "x"*300, "a@b", "semi;colon", "[brackets]", "-x", "--"]
base = tempfile.mkdtemp(dir="/dev/shm", prefix="fz4_")
def inv(cmd, args):
    res = R.invoke(getattr(C,cmd), [str(a) for a in args])
    exc = type(res.exception).__name__ if res.exception and not isinstance(res.exception, SystemExit) else None
    return res.exit_code, exc, res.output
fails = collections.Counter(); examples={}
def fail(kind, info):
    fails[kind]+=1; examples.setdefault(kind, info)
def gen_tree(rnd, root, depth=0):
    os.makedirs(root, exist_ok=True)
    for n in rnd.sample(NAMES, rnd.randint(0, 3)):
        p = os.path.join(root, n)
        if depth < 2 and rnd.random() < 0.4: gen_tree(rnd, p, depth+1)
        else: open(p,"wb").write(rnd.choice([b"",b"x",b"data-"+n.encode()]))
def check_all(root, ctx):
    for f in glob.glob(glob.escape(root)+"/**/*.mhl", recursive=True):
        if not XSD.validate(etree.parse(f)): fail("xsd_manifest:"+str(XSD.error_log.last_error).split("ERROR:")[-1][:90], dict(ctx, f=os.path.relpath(f,root)))
    for f in glob.glob(glob.escape(root)+"/**/ascmhl_c*.xml", recursive=True):
        if not XSDD.validate(etree.parse(f)): fail("xsd_chain:"+str(XSDD.error_log.last_error).split("ERROR:")[-1][:90], dict(ctx, f=os.path.relpath(f,root)))
for it in range(N):
    rnd = random.Random(seed0*100000+it)
    top = os.path.join(base,"w"); shutil.rmtree(top, ignore_errors=True); root=os.path.join(top,"root")
    gen_tree(rnd, root); log=[]
    for step in range(rnd.randint(1,4)):
        dirs=[d for d,_,_ in os.walk(root) if "ascmhl" not in d]; files=[os.path.join(d,f) for d,_,fs in os.walk(root) for f in fs if "ascmhl" not in d]
        where = rnd.choice(dirs)
        args=[where]+sum((["-h",f] for f in rnd.choices(FM,k=rnd.randint(1,3))),[])
        if rnd.random()<0.2: args.append("-n")
        if rnd.random()<0.2: args.append("-dr")
        if rnd.random()<0.3: args += ["-i", rnd.choice(["*.tmp","a","d/"])]
        cand=[f for f in files if f.startswith(where+os.sep)]
        if rnd.random()<0.3 and cand: args += sum((["-sf",x] for x in rnd.choices(cand+[os.path.dirname(c) for c in cand],k=rnd.randint(1,2))),[])
        creator={}
        for opt in ["--author_name","--author_role","--author_phone","--location","--comment"]:
            if rnd.random()<0.35: v=rnd.choice(STR); creator[opt]=v; args += [opt, v]
        if rnd.random()<0.3: args += ["--author_email", rnd.choice(["a@b.c","é@x.y","o'k@d.e f"])]
        r = inv("create", args); log.append((os.path.relpath(where,root), args[1:], r[:2]))
        if r[1] is not None: fail("create_exc_"+r[1], dict(log=log[-1:], out=r[2][-200:]))
        # C10: creator fields read back by own parser and expat
        ms = sorted(glob.glob(glob.escape(where)+"/ascmhl/*.mhl"))
        if r[0] in (0,10,11) and r[1] is None and ms:
            hl = HP.parse(ms[-1]); ci=hl.creator_info; t=ET.parse(ms[-1]).getroot().find(NS+"creatorinfo")
            exp_loc=creator.get("--location"); exp_com=creator.get("--comment")
            def norm(v): return None if v=="" else v   # empty text reads back as None in both readers
            if exp_loc is not None and (ci.location!=norm(exp_loc)): fail("c10_location", dict(w=exp_loc, r=ci.location))
            if exp_com is not None and (ci.comment!=norm(exp_com)): fail("c10_comment", dict(w=exp_com, r=ci.comment))
            has_author = any(k in creator for k in ["--author_name","--author_role","--author_phone"]) or "--author_email" in args
            if has_author:
                if not ci.authors: fail("c10_author_missing", dict(w=creator))
                else:
                    a=ci.authors[0]
                    for k,attr in [("--author_name","name"),("--author_role","role"),("--author_phone","phone")]:
                        if k in creator and getattr(a,attr)!=(norm(creator[k]) if attr=="name" else creator[k]): fail("c10_author_"+attr, dict(w=creator[k], r=getattr(a,attr)))
            # sizes
            for h in (ET.parse(ms[-1]).getroot().find(NS+"hashes") or []):
                if h.tag==NS+"hash":
                    p=h.find(NS+"path"); fp=os.path.join(where,p.text)
                    if os.path.exists(fp) and p.get("size")!=str(os.path.getsize(fp)): fail("c16_size", dict(p=p.text, attr=p.get("size"), real=os.path.getsize(fp)))
        # mutate a bit
        if files and rnd.random()<0.5:
            f=rnd.choice(files); m=rnd.choice(["alter","rm","mv"])
            try:
                if m=="alter": open(f,"ab").write(b"!")
                elif m=="rm": os.remove(f)
                else: os.rename(f, f+"_moved")
            except OSError: pass
    if rnd.random()<0.4:
        r=inv("flatten",[root, os.path.join(top,"out")]); log.append(("flatten",r[:2]))
        if r[1] is not None and r[0]!=30: fail("flatten_exc_"+str(r[1]), dict(log=log[-2:]))
    check_all(top, dict(log=log))
print(which, "iters", N, "kinds", len(fails))
for k,v in fails.most_common(): print(v, k, json.dumps(examples.get(k), ensure_ascii=False)[:500])
shutil.rmtree(base)
