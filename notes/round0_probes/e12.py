import os, sys, time, json, threading
os.environ["TZ"]="UTC"
import requests
behav = sys.argv[1]
class Resp:
    def __init__(s, body, status=200): s.body=body; s.status=status
    def raise_for_status(s):
        if s.status>=400: raise requests.exceptions.HTTPError("boom")
    def json(s):
        if s.body is None: raise requests.exceptions.JSONDecodeError("x","",0)
        return s.body
def fake_get(url, *a, **k):
    if behav=="newer": return Resp({"tag_name":"v99.0"})
    if behav=="older": return Resp({"tag_name":"v0.0.1"})
    if behav=="pre": return Resp({"tag_name":"v99.0rc1"})
    if behav=="garbage": return Resp({"tag_name":"not a version"})
    if behav=="notag": return Resp({})
    if behav=="list": return Resp([1,2])
    if behav=="nojson": return Resp(None)
    if behav=="http500": return Resp({}, 500)
    if behav=="connerr": raise requests.exceptions.ConnectionError("x")
    if behav=="oserror": raise OSError("x")
    if behav=="slow": time.sleep(0.5); return Resp({"tag_name":"v99.0"})
    if behav=="late": time.sleep(3); return Resp({"tag_name":"v99.0"})
    if behav=="hang": threading.Event().wait()
requests.get = fake_get
from click.testing import CliRunner
from ascmhl.cli.ascmhl import mhltool_cli
t=time.time()
r = CliRunner(mix_stderr=False).invoke(mhltool_cli, sys.argv[2:]) if "mix_stderr" in CliRunner.__init__.__code__.co_varnames else CliRunner().invoke(mhltool_cli, sys.argv[2:])
print(json.dumps({"behav":behav,"exit":r.exit_code,"dt":round(time.time()-t,2),"stdout":r.stdout[-200:], "exc":repr(r.exception) if r.exception and not isinstance(r.exception,SystemExit) else None}))
