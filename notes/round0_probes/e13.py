from drv import *
r = fresh(); mk(r, {"old.txt":"root file","s/a.txt":"child a"})
run("create", r+"/s", "-h","md5", show=False)
run("create", r, "-h","md5", show=False)
os.rename(r+"/old.txt", r+"/a.txt")
run("create", r, "-h","md5","-dr")
run("verify", r); run("diff", r); run("create", r, "-h", "md5")
