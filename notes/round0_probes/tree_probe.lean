namespace T
abbrev Bytes := List UInt8

inductive Node where
  | file (name : String) (content : Bytes)
  | dir  (name : String) (children : List Node)

structure Oracle where
  H : Bytes → String          -- digest text of bytes (one format)
  dec : String → Bytes        -- bytes_from_string_digest

def insertSorted (s : String) : List String → List String
  | [] => [s]
  | x :: xs => if s ≤ x then s :: x :: xs else x :: insertSorted s xs
def isort : List String → List String
  | [] => []
  | x :: xs => insertSorted x (isort xs)

def hashOfList (o : Oracle) (l : List String) : String :=
  o.H ((isort l).flatMap o.dec)

mutual
def content (o : Oracle) : Node → String
  | .file _ c => o.H c
  | .dir _ cs => hashOfList o (contents o cs)
def contents (o : Oracle) : List Node → List String
  | [] => []
  | c :: cs => content o c :: contents o cs
end

def Node.name : Node → String
  | .file n _ => n
  | .dir n _ => n
def Node.rename (n' : String) : Node → Node
  | .file _ c => .file n' c
  | .dir _ cs => .dir n' cs

theorem content_rename (o : Oracle) (n' : String) (t : Node) : content o (t.rename n') = content o t := by
  cases t <;> simp [Node.rename, content]

theorem contents_eq_map (o : Oracle) (cs : List Node) : contents o cs = cs.map (content o) := by
  induction cs with
  | nil => simp [contents]
  | cons c cs ih => simp [contents, ih]
end T
#print axioms T.content_rename
