from drv import *
r = fresh(); mk(r, {"a.txt":"content a","z.txt":"zzz"})
run("create", r, "-h","md5", show=False)
os.rename(r+"/a.txt", r+"/b.txt"); run("create", r, "-h","md5","-dr")
run("verify", r)
os.rename(r+"/b.txt", r+"/c.txt"); run("create", r, "-h","md5","-dr")
run("verify", r); run("diff", r); run("create", r, "-h", "md5")
