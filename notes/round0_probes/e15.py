from drv import *
r = fresh(); os.makedirs(r+"/d/e"); 
run("create", r, "-h","md5"); run("verify", r); run("diff", r); run("verify", r, "-dh")
r = fresh(); mk(r, {"only.txt":"x","d/":None}); run("create", r, "-h","md5", show=False); os.remove(r+"/only.txt"); run("verify", r)
