from drv import *
NS={"m":"urn:ASC:MHL:v2.0"}
def recs(f):
    t=etree.parse(f).getroot(); out=[]
    hs=t.find("m:hashes",NS)
    for h in (hs if hs is not None else []):
        out.append((etree.QName(h).localname[0], h.find("m:path",NS).text))
    refs=[(x.find("m:path",NS).text) for x in t.iter("{urn:ASC:MHL:v2.0}hashlistreference")]
    pats=[x.text for x in t.iter("{urn:ASC:MHL:v2.0}pattern")]
    return out, refs, pats
print("=== C08: prefix siblings, depth 3")
r = fresh(); mk(r, {"A/a.txt":"a","AB/b.txt":"b","A/X/x.txt":"x","A/X/Y/y.txt":"y","top.txt":"t", "A/X/Y/Z/z.txt":"z"})
for s in ["A/X/Y","A/X","AB","A"]: run("create", r+"/"+s, "-h","md5", show=False)
run("create", r, "-h","md5", "-i", "*.tmp")
for f in sorted(glob.glob(r+"/**/ascmhl/*.mhl", recursive=True)):
    if "/0001_" in f and not f.startswith(r+"/ascmhl"): continue
    print(os.path.relpath(f,r), recs(f))
print("=== C03 nested alter + verify/diff/create")
mk(r, {"A/X/Y/y.txt":"YY"}); run("verify", r); run("create", r, "-h", "md5")
os.remove(r+"/A/X/x.txt"); mk(r, {"A/X/new.txt":"n"}); run("verify", r); run("diff", r)
print("=== C18 flatten + verify -pl")
r = fresh(); mk(r, {"a.txt":"aaa","s/b.txt":"bbb"}); run("create", r, "-h","md5", show=False); run("create", r, "-h","xxh64", show=False)
out = os.path.dirname(r)+"/out"; run("flatten", r, out); print(os.listdir(out), os.listdir(out+"/"+os.listdir(out)[0]))
pl = glob.glob(out+"/*/*.mhl")[0]; print(open(pl).read()); print("XSD", XSD.validate(etree.parse(pl)), XSD.error_log.last_error)
print(open(glob.glob(out+"/*/*.xml")[0]).read())
run("verify", r, "-pl", pl); mk(r, {"a.txt":"AAA"}); run("verify", r, "-pl", pl)
print("=== C19 info")
run("info", r); run("info", "-sf", r+"/s/b.txt"); run("info", os.path.dirname(r)); 
