import sys, os, itertools, random, shutil, tempfile, time, glob
which = sys.argv[1]
if which == "fixed": sys.path.insert(0, "/root/scratch/repo_fix")
os.environ["TZ"]="UTC"; time.tzset()
from click.testing import CliRunner
import ascmhl, ascmhl.commands as C
from lxml import etree
print(ascmhl.__file__)
R = CliRunner()
FM = ["md5","sha1","xxh128","xxh3","xxh64","c4"]
subsets = [list(c) for k in range(1,7) for c in itertools.combinations(FM,k)]
base = tempfile.mkdtemp(dir="/dev/shm", prefix="c04_")
def run_seq(seq, mode):
    r = os.path.join(base, "r"); shutil.rmtree(r, ignore_errors=True); os.makedirs(r+"/s")
    open(r+"/a.txt","w").write("hello"); open(r+"/s/b.txt","w").write("bb")
    out=[]
    for fm in seq:
        args=[r]+sum((["-h",f] for f in fm), [])
        if mode=="sf": args += ["-sf", r+"/a.txt", "-sf", r+"/s/b.txt"]
        res = R.invoke(C.create, args)
        out.append((res.exit_code, type(res.exception).__name__ if res.exception and not isinstance(res.exception, SystemExit) else None))
    return out
bad = {}
n=0
t=time.time()
for mode in ["folder","sf"]:
    for a in subsets:
        for b in subsets:
            o = run_seq([a,b], mode); n+=1
            if any(x!=(0,None) for x in o): bad.setdefault((mode, str(o)), []).append((a,b))
rnd = random.Random(1)
for i in range(1500):
    L = rnd.choice([3,4,5]); seq=[rnd.choice(subsets) for _ in range(L)]; mode=rnd.choice(["folder","sf"])
    o = run_seq(seq, mode); n+=1
    if any(x!=(0,None) for x in o): bad.setdefault((mode, str(o)), []).append(seq)
print(which, "sequences", n, "secs", round(time.time()-t), "bad classes", len(bad))
for k,v in list(bad.items())[:8]: print(k, len(v), v[0])
shutil.rmtree(base)
