from drv import *
import re, random
print("=== E10: enumeration order -> reference order")
def refs(r):
    f = sorted(glob.glob(r+"/ascmhl/*.mhl"))[-1]
    return re.findall(r"<path>([^<]*ascmhl[^<]*)</path>", open(f).read())
def build():
    r = fresh(); mk(r, {"A/a.txt":"a","B/b.txt":"b","C/c.txt":"c", "x.txt":"x"})
    for s in "ABC": run("create", r+"/"+s, "-h","md5", show=False)
    return r
r = build(); run("create", r, "-h", "md5", show=False); print("native order", os.listdir(r), refs(r))
import os as _os
orig_walk = _os.walk; orig_listdir = _os.listdir; orig_scandir=_os.scandir
def walk_rev(top, *a, **k):
    for root, dirs, files in orig_walk(top, *a, **k):
        dirs.sort(); files.sort()
        yield root, dirs, files
_os.walk = walk_rev
_os.listdir = lambda p: sorted(orig_listdir(p))
r = build(); run("create", r, "-h", "md5", show=False); print("ascending", refs(r))
_os.walk = orig_walk; _os.listdir = orig_listdir
