from drv import *
import hashlib, xxhash, sys
NS={"m":"urn:ASC:MHL:v2.0"}
print("=== C02 special names")
r = fresh("ro ot&<é>"); mk(r, {"a b.txt":"1","ü&<>\"'.txt":"2","d&d/é é.txt":"3","empty/":None, "日本/語.bin":b"\x00\xff"})
run("create", r, "-h","md5","-h","c4")
f = glob.glob(r+"/ascmhl/*.mhl")[0]; print(os.path.basename(f))
t = etree.parse(f).getroot(); print([ (etree.QName(h).localname, h.find("m:path",NS).text) for h in t.find("m:hashes",NS)])
run("verify", r); run("verify", r, "-dh"); run("diff", r)
print("=== C12 ignored dir + dirhash")
r = fresh(); mk(r, {"a.txt":"1","tmp/x.txt":"2","s/b.txt":"3","s/c.bak":"4"})
run("create", r, "-h","md5","-i","tmp","-i","*.bak")
t = etree.parse(glob.glob(r+"/ascmhl/*.mhl")[0]).getroot(); paths=[h.find("m:path",NS).text for h in t.find("m:hashes",NS)]; print(paths)
rh1 = t.find(".//m:roothash/m:content/m:md5",NS).text
r2 = fresh(); mk(r2, {"a.txt":"1","s/b.txt":"3"}); run("create", r2, "-h","md5", show=False)
rh2 = etree.parse(glob.glob(r2+"/ascmhl/*.mhl")[0]).getroot().find(".//m:roothash/m:content/m:md5",NS).text; print("roothash equal w/o ignored:", rh1==rh2)
mk(r, {"tmp/x.txt":"CHANGED","tmp/new.txt":"n","s/d.bak":"n"}); os.remove(r+"/s/c.bak")
print([run(c,*a,show=False).exit_code for c,a in [("verify",(r,)),("verify",(r,"-dh")),("diff",(r,)),("create",(r,"-h","md5"))]])
print("=== C06 same second, chain vs bytes")
import ascmhl.hasher as Hh
for f in sorted(glob.glob(r+"/ascmhl/*")): print(os.path.basename(f), Hh.hash_file(f,"c4")[:12] if f.endswith(".mhl") else "")
print(open(r+"/ascmhl/ascmhl_chain.xml").read())
print("=== C01 big file")
big = os.urandom(3*1024*1024+7); mk(r, {"big.bin": big})
for fmt, ref in [("md5",hashlib.md5(big).hexdigest()),("sha1",hashlib.sha1(big).hexdigest()),("xxh64",xxhash.xxh64_hexdigest(big)),("xxh3",xxhash.xxh3_64_hexdigest(big)),("xxh128",xxhash.xxh3_128_hexdigest(big)),("xxh32",xxhash.xxh32_hexdigest(big))]:
    print(fmt, Hh.hash_file(r+"/big.bin", fmt)==ref, Hh.multiple_format_hash_file(r+"/big.bin",[fmt,"md5"])[fmt]==ref)
