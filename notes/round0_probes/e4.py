from drv import *
import datetime, re
from ascmhl import utils
print("=== E6: DST")
os.environ["TZ"]="Europe/Berlin"; time.tzset()
print("tzname", time.tzname, time.timezone, time.altzone, "isdst now", time.localtime().tm_isdst)
win = datetime.datetime.fromtimestamp(1768482000)  # 2026-01-15 13:00 UTC
print("winter mtime local:", win, "->", utils.datetime_isostring(win), " correct:", win.astimezone().isoformat())
os.environ["TZ"]="CET-1CEST,M3.5.0,M10.5.0/3"; time.tzset()
print("posix TZ:", time.tzname, utils.datetime_isostring(datetime.datetime.fromtimestamp(1768482000)))
os.environ["TZ"]="UTC"; time.tzset()
print(os.path.exists("/usr/share/zoneinfo/Europe/Berlin"))
print("=== E8: author '-'")
r = fresh(); mk(r, {"a.txt": "hello"})
run("create", r, "-h", "md5", "--author_name", "-", "--author_email","a@b.c")
print(re.findall(r"<author.*", open(glob.glob(r+"/ascmhl/*.mhl")[0]).read()))
run("info", r, "-v")
print("=== E12: -sf with -i")
r = fresh(); mk(r, {"a.txt": "hello", "s/b.txt":"b", "s/c.tmp":"c"})
run("create", r, "-h", "md5", "-sf", r+"/s", "-i", "*.tmp")
t=open(glob.glob(r+"/ascmhl/*.mhl")[0]).read(); print(re.findall(r"<pattern>([^<]*)", t), re.findall(r"<path[^>]*>([^<]*)</path>", t))
