from drv import *
print("=== C15: truncated chain / partial manifest / orphan manifest")
r = fresh(); mk(r, {"a.txt":"aaa"}); run("create", r, "-h","md5", show=False)
ch = r+"/ascmhl/ascmhl_chain.xml"; data=open(ch,"rb").read()
open(ch,"wb").close(); run("info", r); run("verify", r)
open(ch,"wb").write(data[:len(data)//2]); run("info", r)
open(ch,"wb").write(data)
m = glob.glob(r+"/ascmhl/0001*.mhl")[0]; md=open(m,"rb").read()
open(r+"/ascmhl/0002_root_2026-01-01_000000Z.mhl","wb").write(md[:300]); run("info", r); run("verify", r)
open(r+"/ascmhl/0002_root_2026-01-01_000000Z.mhl","wb").write(md); run("info", r); run("create", r, "-h", "md5"); print(open(ch).read()); print(sorted(os.listdir(r+"/ascmhl")))
print("=== C05: tamper variants")
r = fresh(); mk(r, {"a.txt":"aaa","s/b.txt":"b"}); run("create", r+"/s", "-h","md5", show=False); run("create", r, "-h","md5", show=False); run("create", r, "-h","md5", show=False)
snap = {f: open(f,"rb").read() for f in glob.glob(r+"/**/*", recursive=True) if os.path.isfile(f)}
for f in sorted(glob.glob(r+"/**/*.mhl", recursive=True)):
    d = snap[f]; open(f,"wb").write(d+b"\n")
    codes = [run(c, *a, show=False).exit_code for c,a in [("create",(r,"-h","md5")),("verify",(r,)),("verify",(r,"-dh")),("diff",(r,)),("info",(r,)),("flatten",(r,r+"/../out")),("create",(r,"-h","md5","-sf",r+"/a.txt")),("info",("-sf",r+"/a.txt"))]]
    open(f,"wb").write(d)
    now = {g: open(g,"rb").read() for g in glob.glob(r+"/**/*", recursive=True) if os.path.isfile(g)}
    print(os.path.relpath(f,r), codes, "unchanged" if now==snap else "CHANGED", os.path.exists(r+"/../out"))
