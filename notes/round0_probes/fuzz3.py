import sys, os, random, shutil, tempfile, time, glob, json, collections, builtins, io
which = sys.argv[1]; seed0=int(sys.argv[2]); N=int(sys.argv[3])
if which == "fixed": sys.path.insert(0, "/root/scratch/repo_fix")
os.environ["TZ"]="UTC"; time.tzset()
from click.testing import CliRunner
import ascmhl, ascmhl.commands as C, ascmhl.hashlist_xml_parser as HP, ascmhl.chain_xml_parser as CP
from lxml import etree
XSD = etree.XMLSchema(etree.parse("/repo/xsd/ASCMHL.xsd")); XSDD = etree.XMLSchema(etree.parse("/repo/xsd/ASCMHLDirectory__combined.xsd"))
R = CliRunner()
FM = ["md5","sha1","xxh128","xxh3","xxh64","c4"]
base = tempfile.mkdtemp(dir="/dev/shm", prefix="fz3_")
def inv(cmd, args):
    res = R.invoke(getattr(C,cmd), [str(a) for a in args])
    exc = type(res.exception).__name__ if res.exception and not isinstance(res.exception, SystemExit) else None
    return res.exit_code, exc, res.output
fails = collections.Counter(); examples={}
def fail(kind, info):
    fails[kind]+=1; examples.setdefault(kind, info)
def snapshot(root):
    out={}
    for d,ds,fs in os.walk(root):
        out[os.path.relpath(d,root)+"/"]=None
        for f in fs: out[os.path.relpath(os.path.join(d,f),root)]=open(os.path.join(d,f),"rb").read()
    return out
def restore(root, snap):
    shutil.rmtree(root, ignore_errors=True)
    for p,b in sorted(snap.items()):
        if b is None: os.makedirs(os.path.join(root,p), exist_ok=True)
    for p,b in snap.items():
        if b is not None:
            os.makedirs(os.path.dirname(os.path.join(root,p)), exist_ok=True); open(os.path.join(root,p),"wb").write(b)
# ---- op recorder
ops=[]
class Rec(io.RawIOBase):
    def __init__(s, path): s.path=path; ops.append(("open",path))
    def write(s, b): ops.append(("write",s.path,bytes(b))); return len(b)
    def flush(s): pass
    def close(s):
        if not s.closed: ops.append(("close",s.path))
        super().close()
def rec_open(path, mode="r", *a, **k):
    if "w" in mode: return Rec(path)
    return builtins.open(path, mode, *a, **k)
def apply_ops(root, ops):
    bufs={}
    for op in ops:
        if op[0]=="mkdir": os.makedirs(op[1], exist_ok=True)
        elif op[0]=="open": builtins.open(op[1],"wb").close()
        elif op[0]=="write":
            with builtins.open(op[1],"ab") as f: f.write(op[2])
        elif op[0]=="replace": os.replace(op[1],op[2])
def crash_states(ops):
    for k in range(len(ops)+1):
        yield k, "full", ops[:k]
        if k<len(ops) and ops[k][0]=="write" and len(ops[k][2])>1:
            b=ops[k][2]; yield k, "torn", ops[:k]+[("write",ops[k][1],b[:len(b)//2])]
for it in range(N):
    rnd = random.Random(seed0*1000+it)
    root = os.path.join(base,"root"); shutil.rmtree(root, ignore_errors=True); os.makedirs(root+"/s/t")
    open(root+"/a.txt","w").write("a%d"%it); open(root+"/s/b.txt","w").write("b"); open(root+"/s/t/c.txt","w").write("c")
    nested = rnd.random()<0.5
    gens = rnd.randint(0,2)
    if nested: inv("create",[root+"/s","-h","md5"])
    for g in range(gens): inv("create",[root,"-h",rnd.choice(FM)])
    pre = snapshot(root)
    def gens_of(h):
        return sorted(os.path.basename(x) for x in glob.glob(h+"/ascmhl/*.mhl"))
    old = {h: gens_of(os.path.join(root,h)) for h in [".","s"]}
    # record ops of real create
    ops.clear()
    HP.open = rec_open; CP.open = rec_open
    real_mkdir, real_replace = os.mkdir, os.replace
    def mk(p,*a,**k): ops.append(("mkdir",p)); return real_mkdir(p,*a,**k)
    def rp(a,b,*x,**k): ops.append(("replace",a,b)); return real_replace(a,b)   # files are virtual here; will fail
    os.mkdir = mk
    os.replace = lambda a,b,*x,**k: ops.append(("replace",a,b))
    # the recorder does not create files, so later hashing of the new manifest must see them: use a shadow approach instead
    HP.open = builtins.open; CP.open = builtins.open; os.replace = real_replace
    # simpler: trace via wrapper that ALSO writes
    class Tee:
        def __init__(s,path): s.f=builtins.open(path,"wb"); s.path=path; ops.append(("open",path))
        def write(s,b): ops.append(("write",s.path,bytes(b))); return s.f.write(b)
        def flush(s): s.f.flush()
        def close(s): ops.append(("close",s.path)); s.f.close()
    def tee_open(path, mode="r", *a, **k):
        if "w" in mode: return Tee(path)
        return builtins.open(path, mode, *a, **k)
    HP.open = tee_open; CP.open = tee_open
    def rp2(a,b,*x,**k): ops.append(("replace",a,b)); return real_replace(a,b)
    os.replace = rp2
    try:
        r = inv("create",[root,"-h",rnd.choice(FM)])
    finally:
        del HP.open, CP.open; os.mkdir=real_mkdir; os.replace=real_replace
    if r[:2]!=(0,None): fail("create_failed",r[:2]); continue
    trace = list(ops)
    nstates=0
    for k,kind,prefix in crash_states(trace):
        restore(root, pre); apply_ops(root, prefix); nstates+=1
        ri = inv("info",[root]); rv = inv("verify",[root])
        okexit = (ri[0]==0 or (gens==0 and ri[0]==30)) and ri[1] is None and rv[1] is None and rv[0] in (0,30,21) if gens==0 else (ri[:2]==(0,None) and rv[:2]==(0,None))
        # previously committed manifests identical
        for p,b in pre.items():
            if p.endswith(".mhl") and b is not None:
                q=os.path.join(root,p)
                if not os.path.exists(q) or open(q,"rb").read()!=b: fail("old_manifest_changed", dict(k=k,kind=kind,p=p))
        if not okexit: fail(f"crash_state_unloadable_{'nested' if nested else 'flat'}_gens{min(gens,1)}", dict(k=k,kind=kind,op=str(trace[k-1][:2]) if k else None, nxt=str(trace[k][:2]) if k<len(trace) else None, info=ri[:2], verify=rv[:2], out=(ri[2]+rv[2])[-200:]))
    examples.setdefault("_trace_sample", [str(o[:2])+ (f" len={len(o[2])}" if o[0]=="write" else "") for o in trace][:40])
    fails["_states"]+=nstates
print(which, "iters", N)
for k,v in fails.most_common(): print(v, k, json.dumps(examples.get(k), ensure_ascii=False)[:900])
shutil.rmtree(base)
