import os, sys, shutil, tempfile, glob, time
os.environ.setdefault("TZ","UTC"); time.tzset()
from click.testing import CliRunner
import ascmhl.commands as C
from lxml import etree
R = CliRunner(mix_stderr=True) if 'mix_stderr' in CliRunner.__init__.__code__.co_varnames else CliRunner()
def run(cmd, *args, show=True):
    r = R.invoke(getattr(C, cmd), [str(a) for a in args])
    if show:
        print(f"$ {cmd} {' '.join(map(str,args))} -> exit {r.exit_code}")
        if r.output.strip(): print("   | " + r.output.strip().replace("\n","\n   | "))
        if r.exception and not isinstance(r.exception, SystemExit):
            print("   EXC:", repr(r.exception))
    return r
def mk(root, files):
    for p, c in files.items():
        fp = os.path.join(root, p)
        os.makedirs(os.path.dirname(fp), exist_ok=True)
        if c is None: os.makedirs(fp, exist_ok=True)
        else:
            with open(fp, "wb") as f: f.write(c if isinstance(c, bytes) else c.encode())
def fresh(name="root"):
    d = tempfile.mkdtemp(prefix="mhlx_", dir="/dev/shm")
    r = os.path.join(d, name); os.makedirs(r); return r
def cat(root, pat="ascmhl/*.mhl"):
    for f in sorted(glob.glob(os.path.join(root, pat))):
        print("-----", os.path.relpath(f, root)); print(open(f).read())
XSD = etree.XMLSchema(etree.parse("/repo/xsd/ASCMHL.xsd"))
def xsd(root):
    for f in sorted(glob.glob(os.path.join(root, "**/*.mhl"), recursive=True)):
        ok = XSD.validate(etree.parse(f))
        print("XSD", os.path.relpath(f, root), ok, "" if ok else XSD.error_log.last_error)
