import sys, os, random, shutil, tempfile, time, glob, json, collections
which = sys.argv[1]; seed0=int(sys.argv[2]); N=int(sys.argv[3])
if which == "fixed": sys.path.insert(0, "/root/scratch/repo_fix")
os.environ["TZ"]="UTC"; time.tzset()
from click.testing import CliRunner
import ascmhl, ascmhl.commands as C
import xml.etree.ElementTree as ET
import pathspec
R = CliRunner(); NS="{urn:ASC:MHL:v2.0}"
FM = ["md5","sha1","xxh128","xxh3","xxh64","c4"]
NAMES = ["a","b","A","AB","a b","é","x&y","z<1>","f.txt","g.tmp","h.bak","tmp","cache","日本","q'\"", "c", "d", "e"]
CONT = [b"", b"x", b"hello", b"hello2", b"AAAA"*100, b"\x00\xff\x10", b"same", b"same"]
base = tempfile.mkdtemp(dir="/dev/shm", prefix="fz_")
def inv(cmd, args):
    res = R.invoke(getattr(C,cmd), [str(a) for a in args])
    exc = type(res.exception).__name__ if res.exception and not isinstance(res.exception, SystemExit) else None
    return res.exit_code, exc, res.output
def gen_tree(rnd, root, depth=0):
    os.makedirs(root, exist_ok=True)
    names = rnd.sample(NAMES, rnd.randint(0 if depth else 1, 4))
    for n in names:
        p = os.path.join(root, n)
        if depth < 3 and rnd.random() < 0.35: gen_tree(rnd, p, depth+1)
        else:
            with open(p, "wb") as f: f.write(rnd.choice(CONT) + (n.encode() if rnd.random()<0.7 else b""))
def walk(root, spec):
    files, dirs = set(), set()
    def rec(d):
        for n in os.listdir(d):
            p = os.path.join(d,n); rel = os.path.relpath(p, root)
            if spec.match_file(rel): continue
            if os.path.isdir(p): dirs.add(rel); rec(p)
            else: files.add(rel)
    rec(root); return files, dirs
def hist_roots(root):
    out=[]
    for d,ds,fs in os.walk(root):
        if "ascmhl" in ds: out.append(d)
    return out
def latest_records(hroot):
    ms = sorted(glob.glob(glob.escape(hroot)+"/ascmhl/*.mhl"))
    if not ms: return None
    t = ET.parse(ms[-1]).getroot(); recs=[]
    hs = t.find(NS+"hashes")
    for h in (hs if hs is not None else []):
        recs.append(("d" if h.tag.endswith("directoryhash") else "f", h.find(NS+"path").text))
    return recs
fails = collections.Counter(); examples={}
def fail(kind, info):
    fails[kind]+=1; examples.setdefault(kind, info)
for it in range(N):
    rnd = random.Random(seed0*100000+it)
    root = os.path.join(base, "root"); shutil.rmtree(root, ignore_errors=True)
    gen_tree(rnd, root)
    # nested histories
    subdirs = [d for d,_,_ in os.walk(root) if d != root]
    nested = rnd.sample(subdirs, min(len(subdirs), rnd.choice([0,0,1,2])))
    log=[]
    for d in sorted(nested, key=len, reverse=rnd.random()<0.5):
        fm = rnd.sample(FM, rnd.randint(1,2)); r = inv("create", [d]+sum((["-h",f] for f in fm),[])); log.append(("create",os.path.relpath(d,root),fm,r[:2]))
    pats = rnd.choice([[],[],["*.tmp"],["tmp","*.bak"],["cache"]])
    fm = rnd.sample(FM, rnd.randint(1,3)); nflag = rnd.random()<0.15
    args=[root]+sum((["-h",f] for f in fm),[])+sum((["-i",p] for p in pats),[])+(["-n"] if nflag else [])
    r = inv("create", args); log.append(("create",".",fm,pats,nflag,r[:2]))
    ctx = {"seed":seed0*100000+it,"log":log}
    if r[:2]!=(0,None): fail("create1_"+str(r[:2]), ctx); continue
    spec = pathspec.PathSpec.from_lines("gitwildmatch", [".DS_Store","ascmhl","ascmhl/"]+pats)
    files, dirs = walk(root, spec)
    # C02/C08 monitor: union over histories of (hroot-rel path) == tree, each exactly once (child roots also appear in parent as dir)
    hroots = [h for h in hist_roots(root) if not spec.match_file(os.path.relpath(h,root)) or h==root]
    rec_files = collections.Counter(); rec_dirs = collections.Counter()
    for h in hroots:
        recs = latest_records(h)
        for k,p in recs:
            full = os.path.normpath(os.path.join(os.path.relpath(h,root), p))
            (rec_files if k=="f" else rec_dirs)[full]+=1
    if set(rec_files)!=files or any(v!=1 for v in rec_files.values()): fail("C02_files", dict(ctx, extra=sorted(set(rec_files)-files), missing=sorted(files-set(rec_files))))
    if set(rec_dirs)!=dirs: fail("C02_dirs", dict(ctx, extra=sorted(set(rec_dirs)-dirs), missing=sorted(dirs-set(rec_dirs))))
    # unchanged
    for cmd,a in [("verify",[root]),("diff",[root]),("verify",[root,"-dh"]),("create",[root,"-h",rnd.choice(FM)]+(["-n"] if nflag else []))]:
        rr = inv(cmd,a)
        if rr[:2]!=(0,None): fail(f"unchanged_{cmd}{'_dh' if '-dh' in a else ''}_{rr[:2]}", dict(ctx, out=rr[2][-300:]))
    files, dirs = walk(root, spec)
    if not files: continue
    # mutate
    mut = rnd.choice(["alter","remove","add","touch","ignored_add"])
    tgt = rnd.choice(sorted(files)); p = os.path.join(root,tgt)
    if mut=="alter": open(p,"ab").write(b"!")
    elif mut=="remove": os.remove(p)
    elif mut=="add": d = rnd.choice(sorted(dirs)+["."]); open(os.path.join(root,d,"NEWFILE"),"wb").write(b"new")
    elif mut=="touch": os.utime(p,(1,1))
    elif mut=="ignored_add":
        os.makedirs(os.path.join(root,"ascmhl"),exist_ok=True); open(os.path.join(root,".DS_Store"),"wb").write(b"x")
    exp = {"alter":{"verify":11,"diff":0,"dh":12,"create":11},"remove":{"verify":10,"diff":10,"dh":12,"create":10},"add":{"verify":21,"diff":21,"dh":12,"create":0},"touch":{"verify":0,"diff":0,"dh":0,"create":0},"ignored_add":{"verify":0,"diff":0,"dh":0,"create":0}}[mut]
    got = {"verify":inv("verify",[root]),"diff":inv("diff",[root]),"dh":inv("verify",[root,"-dh"])}
    got["create"]=inv("create",[root,"-h",fm[0]]+(["-n"] if nflag else []))
    for k in exp:
        if nflag and k=="dh": continue
        if got[k][:2]!=(exp[k],None): fail(f"mut_{mut}_{k}_exp{exp[k]}_got{got[k][:2]}", dict(ctx, target=tgt, out=got[k][2][-300:]))
        elif exp[k] in (10,11,21) and k!="dh" and mut!="add" and os.path.basename(tgt) not in got[k][2]: fail(f"mut_{mut}_{k}_path_not_named", dict(ctx,target=tgt,out=got[k][2][-300:]))
print(which, "iters", N, "failure kinds", len(fails))
for k,v in fails.most_common(): print(v, k, json.dumps(examples[k], ensure_ascii=False)[:600])
shutil.rmtree(base)
